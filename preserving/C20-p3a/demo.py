# -*- coding: utf-8 -*-
"""Property C20 demo (change a: open-string chord fingerings).

(i)  checks the clauses of property C20 from first principles and prints PASS
     (exit 0) or FAIL (exit 1);
(ii) prints OBSERVED: lines showing the behaviour that change a alters.

Run with  PYTHONPATH=<tree> python demo.py
"""
from __future__ import print_function

import itertools
import os
import random
import re
import sys
import warnings

warnings.simplefilter("ignore")

import mingus.extra.tunings as tunings
import mingus.extra.tablature as tablature
from mingus.containers import Note, NoteContainer, Bar, Track, Composition
from mingus.core.mt_exceptions import RangeError, FingerError

FAILS = []


def check(cond, msg):
    if not cond:
        if len(FAILS) < 25:
            print("FAIL:", msg)
        FAILS.append(msg)


# ----------------------------------------------------------------- helpers
LETTER = {"C": 0, "D": 2, "E": 4, "F": 5, "G": 7, "A": 9, "B": 11}


def pitch(n):
    """Semitone number of a Note from its spelling (C-0 == 0), computed here."""
    p = LETTER[n.name[0]] + 12 * n.octave
    for a in n.name[1:]:
        p += 1 if a == "#" else -1
    return p


def pc_of_name(name):
    p = LETTER[name[0]]
    for a in name[1:]:
        p += 1 if a == "#" else -1
    return p % 12


def open_pitches(t):
    """Open-string pitch of every string (first string of a course)."""
    return [pitch(x[0] if isinstance(x, list) else x) for x in t.tuning]


def n_courses(t):
    tot = sum(len(x) if isinstance(x, list) else 1 for x in t.tuning)
    return float(tot) / len(t.tuning)


ALL = tunings.get_tunings()
PLAIN = [t for t in ALL if not any(isinstance(x, list) for x in t.tuning)]
GUITARS = [t for t in PLAIN if len(t.tuning) == 6]
rnd = random.Random(20)


# ------------------------------------------- clause 1: fret arithmetic
def check_frets():
    check(len(ALL) > 60, "registry unexpectedly small: %d" % len(ALL))
    for t in ALL:
        opens = open_pitches(t)
        for p in range(0, 128):
            note = Note(p)
            check(pitch(note) == p, "Note(%d) is not pitch %d" % (p, p))
            for maxfret in (0, 5, 12, 24, 30):
                got = t.find_frets(note, maxfret)
                exp = [p - o if 0 <= p - o <= maxfret else None for o in opens]
                check(list(got) == exp, "find_frets %s %d %d: %r != %r" % (t.instrument, p, maxfret, got, exp))
            got = t.find_frets(note)
            exp = [p - o if 0 <= p - o <= 24 else None for o in opens]
            check(list(got) == exp, "find_frets default maxfret %s %d" % (t.instrument, p))
        # get_Note
        for s, o in enumerate(opens):
            for f in range(0, 25):
                check(pitch(t.get_Note(s, f)) == o + f, "get_Note %s %d %d" % (t.instrument, s, f))
            check(pitch(t.get_Note(s, 30, 30)) == o + 30, "get_Note maxfret 30")
        for (s, f, mf) in [(-1, 0, 24), (len(opens), 0, 24), (0, -1, 24), (0, 25, 24),
                           (0, 13, 12), (len(opens) + 3, 2, 24), (-2, 30, 24)]:
            try:
                t.get_Note(s, f, mf)
                check(False, "get_Note(%d, %d, %d) accepted on %s" % (s, f, mf, t.instrument))
            except RangeError:
                pass


# ------------------------------------------- clause 2: lookup
def check_lookup():
    instruments = sorted(set(t.instrument for t in ALL))
    prefixes = set([None])
    for i in instruments:
        for k in (1, 2, 4, len(i)):
            prefixes.add(i[:k])
            prefixes.add(i[:k].lower())
    for pre in sorted(prefixes, key=lambda x: x or ""):
        for ns in (None, 3, 4, 5, 6):
            for nc in (None, 1, 2, 3):
                for t in tunings.get_tunings(pre, ns, nc):
                    ok = (pre is None or t.instrument.upper().startswith(pre.upper()))
                    ok = ok and (ns is None or len(t.tuning) == ns)
                    ok = ok and (nc is None or n_courses(t) == nc)
                    check(ok, "get_tunings(%r, %r, %r) gave %s" % (pre, ns, nc, t.instrument))
    for t0 in ALL:
        for dk in (0, 3, 8, len(t0.description)):
            d = t0.description[:dk]
            for pre in (t0.instrument, t0.instrument[:3].lower()):
                for ns in (None, len(t0.tuning), 4):
                    for nc in (None, n_courses(t0), 1):
                        t = tunings.get_tuning(pre, d, ns, nc)
                        if t is None:
                            continue
                        ok = t.instrument.upper().startswith(pre.upper())
                        ok = ok and t.description.upper().startswith(d.upper())
                        ok = ok and (ns is None or len(t.tuning) == ns)
                        ok = ok and (nc is None or n_courses(t) == nc)
                        check(ok, "get_tuning(%r, %r, %r, %r) gave %s / %s" % (pre, d, ns, nc, t.instrument, t.description))
    g = tunings.get_tuning("Guitar", "Standard", 6, 1)
    check(g is not None and open_pitches(g) == [28, 33, 38, 43, 47, 52], "standard guitar is E A D G B E")


# ------------------------------------------- clause 3: find_fingering
def spec_fingerings(opens, pitches, max_distance=4, maxfret=24):
    res = set()
    for strings in itertools.permutations(range(len(opens)), len(pitches)):
        frets = [p - opens[s] for (s, p) in zip(strings, pitches)]
        if any(f < 0 or f > maxfret for f in frets):
            continue
        fretted = [f for f in frets if f != 0]
        if fretted and max(fretted) - min(fretted) >= max_distance:
            continue
        res.add(tuple(zip(strings, frets)))
    return res


def check_fingering():
    for t in ALL:
        opens = open_pitches(t)
        for _ in range(6):
            k = rnd.randint(1, min(3, len(opens)))
            base = rnd.choice(opens) + rnd.randint(0, 9)
            ps = [base + rnd.randint(0, 12) for _ in range(k)]
            got = t.find_fingering([Note(p) for p in ps])
            as_set = set(tuple(tuple(x) for x in f) for f in got)
            check(len(as_set) == len(got), "duplicate fingerings %s %r" % (t.instrument, ps))
            check(as_set == spec_fingerings(opens, ps), "find_fingering %s %r" % (t.instrument, ps))
            totals = [sum(f for (_, f) in x) for x in got]
            check(totals == sorted(totals), "find_fingering order %s %r" % (t.instrument, ps))


# ------------------------------------------- clause 4: chord fingerings
def spec_fingers(fing):
    """Fingers for the fretted strings, one finger for a barre at the lowest
    fret across the strings above the last open string (a lower bound that
    does not count muted strings)."""
    fretted = [f for f in fing if f]
    if not fretted:
        return 0
    lowest = min(fretted)
    n, barre, open_seen = 0, False, False
    for f in reversed(fing):
        if f == 0:
            open_seen = True
        elif f:
            if f == lowest and not open_seen:
                if not barre:
                    n += 1
                    barre = True
            else:
                n += 1
    return n


SHORTHANDS = ["", "m", "7", "m7", "M7", "dim", "aug", "sus4", "sus2", "6", "6/9", "9", "m6", "7b5"]
ROOTS = ["C", "C#", "D", "Eb", "E", "F", "F#", "G", "Ab", "A", "Bb", "B"]
N_CHORD_FINGERINGS = [0]


def check_chords():
    for t in GUITARS:
        opens = open_pitches(t)
        for root in ROOTS:
            for sh in SHORTHANDS:
                nc = NoteContainer().from_chord(root + sh)
                pcs = set(pc_of_name(n.name) for n in nc)
                if len(pcs) > len(opens):
                    continue
                for fing in t.find_chord_fingering(nc):
                    N_CHORD_FINGERINGS[0] += 1
                    what = "%s %s%s %r" % (t.description, root, sh, fing)
                    check(len(fing) == len(opens), "one entry per string: " + what)
                    sounding = [(o + f) % 12 for (o, f) in zip(opens, fing) if f is not None]
                    check(all(f is None or 0 <= f <= 18 for f in fing), "fret range: " + what)
                    check(set(sounding) <= pcs, "foreign pitch class: " + what)
                    check(set(sounding) == pcs, "chord not covered: " + what)
                    fretted = [f for f in fing if f]
                    check(not fretted or max(fretted) - min(fretted) < 4, "span: " + what)
                    check(spec_fingers(fing) <= 4, "fingers: " + what)
                # other limits
                for fing in t.find_chord_fingering(nc, max_distance=3, maxfret=12, max_fingers=3):
                    fretted = [f for f in fing if f]
                    check(not fretted or max(fretted) - min(fretted) < 3, "span 3")
                    check(all(f is None or f <= 12 for f in fing), "maxfret 12")
                    check(spec_fingers(fing) <= 3, "fingers 3")
                    sounding = [(o + f) % 12 for (o, f) in zip(opens, fing) if f is not None]
                    check(set(sounding) == pcs and len(fing) == len(opens), "limits variant")


# ------------------------------------------- clause 5: tablature
def string_lines(lines, nstrings):
    """Check a block of string lines and return the per-string body (text after
    the '||'), indexed by string number (bottom line is string 0)."""
    check(len(lines) == nstrings, "expected %d string lines, got %d" % (nstrings, len(lines)))
    check(len(set(len(x) for x in lines)) == 1, "string lines differ in length: %r" % (lines,))
    bodies = []
    for ln in lines:
        check("||" in ln, "no '||' in %r" % ln)
        bodies.append(ln[ln.find("||") + 2:])
    bodies.reverse()
    return bodies


def decode(bodies, opens):
    """Read the fret numbers column by column: returns the list of entries, each
    a sorted list of pitches."""
    runs = []
    for (s, body) in enumerate(bodies):
        for m in re.finditer(r"\d+", body):
            runs.append((m.start(), m.end(), s, int(m.group())))
    runs.sort()
    entries = []
    cur_end = -1
    for (a, b, s, f) in runs:
        if entries and a < cur_end:
            entries[-1].append(opens[s] + f)
            cur_end = max(cur_end, b)
        else:
            entries.append([opens[s] + f])
            cur_end = b
    return [sorted(e) for e in entries]


def blocks_of(text):
    blocks, cur = [], []
    for ln in text.split(os.linesep):
        if ln.strip() == "":
            if cur:
                blocks.append(cur)
            cur = []
        else:
            cur.append(ln)
    if cur:
        blocks.append(cur)
    return blocks


def random_playable(t, opens, k):
    """k pitches on k different strings within a hand span (so it is playable)."""
    strings = rnd.sample(range(len(opens)), k)
    pos = rnd.randint(1, 9)
    return sorted(set(opens[s] + rnd.choice([0, pos, pos + 1, pos + 2]) for s in strings))


def random_bar(t, opens):
    bar = Bar("C", (4, 4))
    expected = []
    while not bar.is_full():
        dur = rnd.choice([2, 4, 4, 8])
        if bar.space_left() < 1.0 / dur:
            dur = 8
        if rnd.random() < 0.2:
            bar.place_rest(dur)
            continue
        ps = random_playable(t, opens, rnd.randint(1, min(3, len(opens))))
        if bar.place_notes(NoteContainer([Note(p) for p in ps]), dur):
            expected.append(ps)
    return bar, expected


def check_tabs():
    for t in PLAIN:
        opens = open_pitches(t)
        n = len(opens)
        # single notes
        for width in (30, 40, 80):
            for p in range(min(opens) - 2, max(opens) + 27):
                playable = any(0 <= p - o <= 24 for o in opens)
                try:
                    txt = tablature.from_Note(Note(p), width, t)
                except RangeError:
                    check(not playable, "from_Note refused playable %d on %s" % (p, t.instrument))
                    continue
                check(playable, "from_Note drew unplayable %d on %s" % (p, t.instrument))
                got = decode(string_lines(txt.split(os.linesep), n), opens)
                check(got == [[p]], "from_Note %s %d width %d decodes to %r" % (t.instrument, p, width, got))
        # note containers
        for width in (30, 40, 80):
            for _ in range(4):
                ps = random_playable(t, opens, rnd.randint(1, min(4, n)))
                txt = tablature.from_NoteContainer(NoteContainer([Note(p) for p in ps]), width, t)
                got = decode(string_lines(txt.split(os.linesep), n), opens)
                check(got == [ps], "from_NoteContainer %s %r decodes to %r" % (t.instrument, ps, got))
        # unplayable container: two notes that only exist on the lowest string
        lo = sorted(opens)
        if len(lo) > 1 and lo[1] - lo[0] >= 2:
            try:
                tablature.from_NoteContainer(NoteContainer([Note(lo[0]), Note(lo[0] + 1)]), 40, t)
                check(False, "unplayable container accepted on %s" % t.instrument)
            except (FingerError, RangeError):
                pass
        # bars
        for width in (40, 60, 80):
            bar, expected = random_bar(t, opens)
            lines = tablature.from_Bar(bar, width, t, collapse=False)
            got = decode(string_lines(lines[1:], n), opens)
            check(got == expected, "from_Bar %s width %d: %r != %r" % (t.instrument, width, got, expected))
            txt = tablature.from_Bar(bar, width, t)
            check(txt.split(os.linesep) == list(lines), "collapse=True is the joined lines")
        bad = Bar("C", (4, 4))
        bad.place_notes(NoteContainer([Note(max(opens) + 40)]), 4)
        try:
            tablature.from_Bar(bad, 40, t)
            check(False, "unplayable bar accepted on %s" % t.instrument)
        except (FingerError, RangeError):
            pass

    # tracks and compositions
    for t in rnd.sample(PLAIN, 12) + [tablature.default_tuning]:
        opens = open_pitches(t)
        n = len(opens)
        for maxwidth in (40, 60, 80, 100, 130):
            track = Track()
            track.set_tuning(t)
            expected = []
            for _ in range(rnd.randint(1, 5)):
                bar, exp = random_bar(t, opens)
                track.add_bar(bar)
                expected += exp
            got = []
            for block in blocks_of(tablature.from_Track(track, maxwidth)):
                got += decode(string_lines(block[1:], n), opens)
            check(got == expected, "from_Track %s maxwidth %d" % (t.instrument, maxwidth))

    t = tablature.default_tuning
    opens = open_pitches(t)
    for width in (40, 60, 80, 100, 130):
        for ntracks in (1, 2, 3):
            comp = Composition()
            comp.set_title("Demo piece", "for C20")
            comp.set_author("Some One", "someone@example.org")
            nbars = rnd.randint(1, 4)
            expected = []
            for _ in range(ntracks):
                track = Track()
                exp = []
                for _ in range(nbars):
                    bar, e = random_bar(t, opens)
                    track.add_bar(bar)
                    exp += e
                comp.add_track(track)
                expected.append(exp)
            lines = tablature.from_Composition(comp, width).split(os.linesep)
            strl = [ln for ln in lines
                    if "||" in ln and "*" not in ln and ln[ln.find("||") + 2:].strip() != ""]
            check(len(strl) % 6 == 0, "composition: string lines not a multiple of 6")
            got = [[] for _ in range(ntracks)]
            for k in range(0, len(strl) // 6):
                got[k % ntracks] += decode(string_lines(strl[6 * k:6 * k + 6], 6), opens)
            check(got == expected, "from_Composition width %d, %d tracks" % (width, ntracks))


# ------------------------------------------- observed behaviour
def observed():
    def show(f, *args, **kw):
        try:
            return repr(f(*args, **kw))
        except Exception as e:  # noqa
            return "%s: %s" % (type(e).__name__, e)

    print("OBSERVED: fingers_needed([0, 0, 0, 0, 0, 0]) ->", show(tunings.fingers_needed, [0, 0, 0, 0, 0, 0]))
    t = tunings.get_tuning("Guitar", "Open E minor")
    r = t.find_chord_fingering(NoteContainer().from_chord("Em"))
    print("OBSERVED: Em on the open E minor guitar tuning: %d fingerings, first %r, all-open listed: %r"
          % (len(r), r[0], [0] * 6 in r))
    g = tunings.get_tuning("Guitar", "Standard", 6, 1)
    r = g.find_chord_fingering(NoteContainer().from_chord("G6/9"))
    print("OBSERVED: G6/9 on the standard guitar: %d fingerings, first %r" % (len(r), r[0]))
    n = 0
    for t in GUITARS:
        for root in ROOTS:
            for sh in SHORTHANDS:
                for f in t.find_chord_fingering(NoteContainer().from_chord(root + sh)):
                    if not [x for x in f if x]:
                        n += 1
    print("OBSERVED: chord fingerings without any fretted string over the sample:", n)
    print("OBSERVED: chord fingerings checked in total:", N_CHORD_FINGERINGS[0])


def main():
    check_frets()
    check_lookup()
    check_fingering()
    check_chords()
    check_tabs()
    observed()
    if FAILS:
        print("FAIL (%d checks failed)" % len(FAILS))
        return 1
    print("PASS")
    return 0


if __name__ == "__main__":
    sys.exit(main())
