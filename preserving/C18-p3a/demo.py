# -*- coding: utf-8 -*-
"""Demo for C18 / a: play_Tracks plays tracks with different numbers of bars.

(i)  checks the clauses of property C18 on random material against an event
     model written from first principles (pitch arithmetic, 240/bpm seconds
     per whole note, General MIDI program numbers);
(ii) prints OBSERVED lines for the behaviour the change alters (tracks that
     do NOT have the same number of bars - outside the property's quantifier).
"""
from __future__ import print_function

import random
import sys
from fractions import Fraction

from mingus.containers import Bar, Composition, Note, NoteContainer, Track
from mingus.containers.instrument import MidiInstrument, Piano
from mingus.midi.sequencer import Sequencer
from mingus.midi.sequencer_observer import SequencerObserver

FAILS = []


def check(cond, msg):
    if not cond:
        FAILS.append(msg)


# --------------------------------------------------------------- recorders
class RecSeq(Sequencer):
    def init(self):
        self.ev = []

    def play_event(self, note, channel, velocity):
        self.ev.append(("play", note, channel, velocity))

    def stop_event(self, note, channel):
        self.ev.append(("stop", note, channel))

    def cc_event(self, channel, control, value):
        self.ev.append(("cc", channel, control, value))

    def instr_event(self, channel, instr, bank):
        self.ev.append(("instr", channel, instr))

    def sleep(self, seconds):
        self.ev.append(("sleep", seconds))


class RawObs(object):
    """Records the five low level messages only (numbers 0..4)."""

    def __init__(self):
        self.ev = []

    def notify(self, t, p):
        if t == 0:
            self.ev.append(("play", p["note"], p["channel"], p["velocity"]))
        elif t == 1:
            self.ev.append(("stop", p["note"], p["channel"]))
        elif t == 2:
            self.ev.append(("cc", p["channel"], p["control"], p["value"]))
        elif t == 3:
            self.ev.append(("instr", p["channel"], p["instr"]))
        elif t == 4:
            self.ev.append(("sleep", p["s"]))


class SubObs(SequencerObserver):
    def __init__(self):
        self.ev = []

    def play_int_note_event(self, int_note, channel, velocity):
        self.ev.append(("play", int_note, channel, velocity))

    def stop_int_note_event(self, int_note, channel):
        self.ev.append(("stop", int_note, channel))

    def cc_event(self, channel, control, value):
        self.ev.append(("cc", channel, control, value))

    def instr_event(self, channel, instr, bank):
        self.ev.append(("instr", channel, instr))

    def sleep(self, seconds):
        self.ev.append(("sleep", seconds))


def rig():
    s = RecSeq()
    o = RawObs()
    o2 = SubObs()
    s.attach(o)
    s.attach(o2)
    return s, o, o2


# ------------------------------------------------------------ music model
SEMI = {"C": 0, "D": 2, "E": 4, "F": 5, "G": 7, "A": 9, "B": 11}


def midi_number(name, octave):
    """Scientific pitch C-4 = 60 (= mingus int 48 + 12)."""
    n = SEMI[name[0]]
    for a in name[1:]:
        n += 1 if a == "#" else -1
    return n + 12 * octave + 12


NAMES = ["C", "D", "E", "F", "G", "A", "B", "C#", "Eb", "F#", "Bb", "Ab"]


def rhythm(rng):
    """A list of note values filling one 4/4 bar exactly."""
    left = Fraction(1)
    out = []
    while left > 0:
        v = rng.choice([1, 2, 4, 4, 8, 8, 16])
        if Fraction(1, v) <= left:
            out.append(v)
            left -= Fraction(1, v)
    return out


def random_spec(rng, ntracks, nbars, tempo_track=0, equal=False):
    """spec[t][b] = list of entries (value, notes or None, bpm or None);
    a note is (name, octave, channel, velocity).  Track t only uses the
    channels 4t..4t+3, so events can be attributed to their track."""
    spec = []
    shared = [rhythm(rng) for _ in range(nbars)]
    for t in range(ntracks):
        bars = []
        for b in range(nbars):
            entries = []
            for v in shared[b] if equal else rhythm(rng):
                kind = rng.random()
                if kind < 0.2:
                    entries.append((v, None, None))
                    continue
                k = 1 if kind < 0.7 else rng.randint(2, 4)
                notes = {}
                while len(notes) < k:
                    nm, oc = rng.choice(NAMES), rng.randint(1, 7)
                    ch = 4 * t + rng.randint(0, 3)
                    notes[midi_number(nm, oc)] = (nm, oc, ch, rng.randint(1, 127))  # distinct pitches
                bpm = None
                if t == tempo_track and rng.random() < 0.25:
                    bpm = rng.choice([60, 90, 100, 150, 200, 240])
                entries.append((v, list(notes.values()), bpm))
            bars.append(entries)
        spec.append(bars)
    return spec


def build_bar(entries):
    bar = Bar("C", (4, 4))
    for (v, notes, bpm) in entries:
        if notes is None:
            ok = bar.place_rest(v)
        else:
            nc = NoteContainer([Note(nm, oc, velocity=vel, channel=ch) for (nm, oc, ch, vel) in notes])
            if bpm is not None:
                nc.bpm = bpm
            ok = bar.place_notes(nc, v)
        assert ok
    return bar


def build_track(bars, instrument=None):
    tr = Track(instrument)
    for entries in bars:
        tr.add_bar(build_bar(entries))
    return tr


def model(spec, bpm0):
    """-> (expected notes [(t_on, t_off, pitch, ch, vel)], total seconds,
    final bpm).  Musical time is counted in whole notes with Fractions; a
    tempo change takes effect at the start of the container carrying it;
    one whole note lasts 240/bpm seconds."""
    changes = []  # (musical time, bpm)
    raw = []
    end = Fraction(0)
    for bars in spec:
        pos = Fraction(0)
        for b, entries in enumerate(bars):
            pos = Fraction(b)  # every bar is 4/4 = one whole note
            for (v, notes, bpm) in entries:
                if bpm is not None:
                    changes.append((pos, bpm))
                if notes is not None:
                    for (nm, oc, ch, vel) in notes:
                        raw.append((pos, pos + Fraction(1, v), midi_number(nm, oc), ch, vel))
                pos += Fraction(1, v)
            end = max(end, pos)
    changes.sort()

    def seconds(m):
        t, cur, bpm = 0.0, Fraction(0), bpm0
        for (at, nb) in changes:
            if at >= m:
                break
            t += float(at - cur) * 240.0 / bpm
            cur, bpm = at, nb
        return t + float(m - cur) * 240.0 / bpm

    final = changes[-1][1] if changes else bpm0
    notes = [(seconds(a), seconds(b), p, ch, vel) for (a, b, p, ch, vel) in raw]
    return notes, seconds(end), final


def analyse(ev, label):
    """Pair play/stop events; check the balance clauses; return the notes
    [(t_on, t_off, pitch, ch, vel)] and the total time slept."""
    now = 0.0
    sounding = {}
    notes = []
    for e in ev:
        if e[0] == "sleep":
            check(e[1] >= 0, label + ": negative sleep")
            now += e[1]
        elif e[0] == "play":
            key = (e[1], e[2])
            check(key not in sounding, label + ": note started twice %r" % (key,))
            check(type(e[1]) is int and type(e[2]) is int and type(e[3]) is int, label + ": non-int event")
            sounding[key] = (now, e[3])
        elif e[0] == "stop":
            key = (e[1], e[2])
            check(key in sounding, label + ": stop without start %r" % (key,))
            if key in sounding:
                on, vel = sounding.pop(key)
                notes.append((on, now, e[1], e[2], vel))
    check(not sounding, label + ": left sounding %r" % (sounding,))
    return notes, now


def same_notes(got, want, label):
    def key(n):
        return (n[2], n[3], round(n[0], 6))

    got, want = sorted(got, key=key), sorted(want, key=key)
    check(len(got) == len(want), "%s: %d notes played, %d expected" % (label, len(got), len(want)))
    for g, w in zip(got, want):
        ok = g[2:] == w[2:] and abs(g[0] - w[0]) < 1e-6 and abs(g[1] - w[1]) < 1e-6
        check(ok, "%s: note %r, expected %r" % (label, g, w))


def verify(seq, obs, obs2, res, spec, bpm0, label, n_instr=0):
    ev = seq.ev
    check(obs.ev == ev, label + ": raw observer differs from hooks")
    check(obs2.ev == ev, label + ": SequencerObserver differs from hooks")
    body = ev[n_instr:]
    check(all(e[0] in ("play", "stop", "sleep") for e in body), label + ": unexpected event kind")
    got, slept = analyse(body, label)
    want, total, final = model(spec, bpm0)
    same_notes(got, want, label)
    check(abs(slept - total) < 1e-6, "%s: slept %r, expected %r" % (label, slept, total))
    check(isinstance(res, dict) and res.get("bpm") == final, "%s: result %r, final tempo %r" % (label, res, final))


# GM program numbers, 0-based (General MIDI level 1 sound set)
GM = {"Acoustic Grand Piano": 0, "Harpsichord": 6, "Violin": 40, "Trumpet": 56, "Flute": 73}


def run_property(seed=20260928, rounds=60):
    rng = random.Random(seed)

    # single note / note container
    for _ in range(20):
        nm, oc = rng.choice(NAMES), rng.randint(0, 8)
        ch, vel = rng.randint(0, 15), rng.randint(0, 127)
        s, o, o2 = rig()
        n = Note(nm, oc, velocity=vel, channel=ch)
        s.play_Note(n)
        s.stop_Note(n)
        want = [("play", midi_number(nm, oc), ch, vel), ("stop", midi_number(nm, oc), ch)]
        check(s.ev == want and o.ev == want and o2.ev == want, "play_Note %s-%d: %r" % (nm, oc, s.ev))
    s, o, o2 = rig()
    nc = NoteContainer([Note("C", 4, velocity=10, channel=2), Note("E", 4, velocity=20, channel=3)])
    s.play_NoteContainer(nc)
    s.stop_NoteContainer(nc)
    check(sorted(s.ev[:2]) == [("play", 60, 2, 10), ("play", 64, 3, 20)], "play_NoteContainer: %r" % (s.ev,))
    check(sorted(s.ev[2:]) == [("stop", 60, 2), ("stop", 64, 3)], "stop_NoteContainer: %r" % (s.ev,))
    check(o.ev == s.ev and o2.ev == s.ev, "NoteContainer: observers differ")

    for r in range(rounds):
        bpm0 = rng.choice([60, 96, 120, 180])
        # one bar, one track
        spec = random_spec(rng, 1, 1)
        s, o, o2 = rig()
        res = s.play_Bar(build_bar(spec[0][0]), 1, bpm0)
        verify(s, o, o2, res, spec, bpm0, "play_Bar #%d" % r)

        spec = random_spec(rng, 1, rng.randint(1, 3))
        s, o, o2 = rig()
        res = s.play_Track(build_track(spec[0]), 1, bpm0)
        verify(s, o, o2, res, spec, bpm0, "play_Track #%d" % r)

        # several bars together
        nt = rng.randint(1, 4)
        spec = random_spec(rng, nt, 1, tempo_track=rng.randrange(nt), equal=rng.random() < 0.3)
        s, o, o2 = rig()
        res = s.play_Bars([build_bar(t[0]) for t in spec], [4 * t for t in range(nt)], bpm0)
        verify(s, o, o2, res, spec, bpm0, "play_Bars #%d" % r)

        # several tracks together (all with the same number of bars)
        nt = rng.randint(1, 4)
        spec = random_spec(rng, nt, rng.randint(1, 3), tempo_track=rng.randrange(nt), equal=rng.random() < 0.3)
        instrs, progs = [], []
        for t in range(nt):
            k = rng.randrange(4)
            if k == 0:
                name = rng.choice(sorted(GM))
                instrs.append(MidiInstrument(name))
                progs.append(GM[name])
            elif k == 1:
                instrs.append(MidiInstrument("No such instrument"))
                progs.append(1)
            elif k == 2:
                instrs.append(Piano())
                progs.append(1)
            else:
                instrs.append(None)
                progs.append(1)
        tracks = [build_track(spec[t], instrs[t]) for t in range(nt)]
        chans = rng.sample(range(16), nt)
        s, o, o2 = rig()
        if r % 2:
            res = s.play_Tracks(tracks, chans, bpm0)
        else:
            comp = Composition()
            for tr in tracks:
                comp.add_track(tr)
            res = s.play_Composition(comp, chans, bpm0)
        head = s.ev[:nt]
        check(
            sorted(head) == sorted(("instr", chans[t], progs[t]) for t in range(nt)),
            "play_Tracks #%d: instrument changes %r, expected programs %r on %r" % (r, head, progs, chans),
        )
        verify(s, o, o2, res, spec, bpm0, "play_Tracks #%d" % r, n_instr=nt)

    # default channels of a composition: 1, 2, ...
    spec = random_spec(rng, 3, 1)
    comp = Composition()
    for t in range(3):
        comp.add_track(build_track(spec[t]))
    s, o, o2 = rig()
    res = s.play_Composition(comp)
    check(sorted(s.ev[:3]) == [("instr", 1, 1), ("instr", 2, 1), ("instr", 3, 1)], "composition channels %r" % (s.ev[:3],))
    verify(s, o, o2, res, spec, 120, "play_Composition default", n_instr=3)

    # attaching twice / detaching
    s = RecSeq()
    o = RawObs()
    s.attach(o)
    s.attach(o)
    s.play_Note(Note("A", 4, velocity=90, channel=5))
    check(o.ev == [("play", 69, 5, 90)] and s.ev == o.ev, "attach twice duplicates: %r" % (o.ev,))
    s.detach(o)
    s.stop_Note(Note("A", 4, velocity=90, channel=5))
    check(o.ev == [("play", 69, 5, 90)], "detached observer still notified")
    check(s.ev[-1] == ("stop", 69, 5), "hook not called after detach")

    # control changes
    for (ctl, val, ok) in [(-1, 5, False), (129, 5, False), (5, -1, False), (5, 129, False), (-7, 300, False),
                           (1000, 0, False), (0, 0, True), (128, 128, True), (7, 100, True), (64, 127, True)]:
        s, o, o2 = rig()
        try:
            ret = s.control_change(3, ctl, val)
        except Exception:
            ret = False
        if ok:
            want = [("cc", 3, ctl, val)]
            check(ret and s.ev == want and o.ev == want and o2.ev == want, "cc %d %d not sent: %r" % (ctl, val, s.ev))
        else:
            check(not ret and s.ev == [] and o.ev == [] and o2.ev == [], "cc %d %d not refused: %r" % (ctl, val, s.ev))


# ------------------------------------------------------------ OBSERVED part
def quarters(names, ch):
    return [(4, [(nm, 4, ch, 80)], None) for nm in names]


def observed():
    short = [quarters("CDEF", 0)]  # one bar
    long_ = [quarters("CDEF", 4), quarters("GABC", 4), quarters("DEFG", 4)]  # three bars
    for label, order in (("short track first", (short, long_)), ("short track last", (long_, short))):
        s = RecSeq()
        try:
            res = s.play_Tracks([build_track(order[0]), build_track(order[1])], [1, 2], 120)
            out = "returned %r" % (res,)
        except Exception as e:
            out = "raised %s" % type(e).__name__
        plays = sum(1 for e in s.ev if e[0] == "play")
        stops = sum(1 for e in s.ev if e[0] == "stop")
        slept = sum(e[1] for e in s.ev if e[0] == "sleep")
        print("OBSERVED: tracks of 1 and 3 bars, %s: %s; %d of 16 notes started, %d stopped, %.2f s slept"
              % (label, out, plays, stops, slept))
    s = RecSeq()
    try:
        out = "returned %r" % (s.play_Tracks([], [], 100),)
    except Exception as e:
        out = "raised %s" % type(e).__name__
    print("OBSERVED: play_Tracks([], [], 100) %s" % out)


if __name__ == "__main__":
    run_property()
    observed()
    if FAILS:
        for f in FAILS[:20]:
            print("FAIL:", f)
        print("FAIL (%d problems)" % len(FAILS))
        sys.exit(1)
    print("PASS")
    sys.exit(0)
