from __future__ import print_function

import sys

from mingus.containers import Bar, Composition, Note, NoteContainer, Track
from mingus.containers.instrument import Instrument, MidiInstrument
from mingus.midi.sequencer import Sequencer
from mingus.midi.sequencer_observer import SequencerObserver

# ----------------------------------------------------------------------------
# Part (i): the clauses of property C18, checked from first principles.
#
# A piece is described WITHOUT mingus objects:
#   track  = list of bars
#   bar    = list of entries (value, notes, bpm)
#   value  = note value (4 = quarter, 8 = eighth, 8/3. = dotted quarter ...)
#   notes  = None for a rest, else a list of (name, octave, channel, velocity)
#   bpm    = None, or the new tempo that this container carries
# Expected MIDI numbers come from the table below (C-0 = 0, so that the event
# number is octave*12 + semitone + 12), expected times from 240/bpm seconds per
# whole note, integrated over the tempo changes.
# ----------------------------------------------------------------------------

GM_PROGRAM = {"Acoustic Grand Piano": 0, "Violin": 40, "Flute": 73}
SEMITONE = {"C": 0, "D": 2, "E": 4, "F": 5, "G": 7, "A": 9, "B": 11}
TOL = 1e-9
failures = []


def check(cond, what):
    if not cond:
        failures.append(what)


def midi_number(name, octave):
    return octave * 12 + SEMITONE[name[0]] + name.count("#") - name[1:].count("b") + 12


class RecSeq(Sequencer):
    """Records what arrives at the sequencer's own hooks."""

    def init(self):
        self.log = []

    def play_event(self, note, channel, velocity):
        self.log.append(("play", note, channel, velocity))

    def stop_event(self, note, channel):
        self.log.append(("stop", note, channel))

    def cc_event(self, channel, control, value):
        self.log.append(("cc", channel, control, value))

    def instr_event(self, channel, instr, bank):
        self.log.append(("instr", channel, instr))

    def sleep(self, seconds):
        self.log.append(("sleep", seconds))


class RecObs(SequencerObserver):
    """Records the low level events that arrive at an attached observer."""

    def __init__(self):
        self.log = []

    def play_int_note_event(self, int_note, channel, velocity):
        self.log.append(("play", int_note, channel, velocity))

    def stop_int_note_event(self, int_note, channel):
        self.log.append(("stop", int_note, channel))

    def cc_event(self, channel, control, value):
        self.log.append(("cc", channel, control, value))

    def instr_event(self, channel, instr, bank):
        self.log.append(("instr", channel, instr))

    def sleep(self, seconds):
        self.log.append(("sleep", seconds))


def build_bar(spec, meter=(4, 4)):
    bar = Bar("C", meter)
    for (value, notes, bpm) in spec:
        if notes is None:
            ok = bar.place_rest(value)
        else:
            nc = NoteContainer(
                [Note(nm, octv, velocity=vel, channel=ch) for (nm, octv, ch, vel) in notes]
            )
            if bpm is not None:
                nc.bpm = bpm
            ok = bar.place_notes(nc, value)
        assert ok, "demo bug: entry does not fit in the bar"
    return bar


def build_track(spec, instrument=None):
    t = Track(instrument)
    for b in spec:
        t.add_bar(build_bar(b))
    return t


def expected_of(tracks_spec, bpm):
    """Return (intervals, total_seconds, final_bpm, plays_per_track).

    intervals: sorted list of (t_on, t_off, midi number, channel, velocity).
    """
    # tempo map: position (in whole notes) -> bpm
    changes = []
    notes = []
    total = 0.0
    for tr in tracks_spec:
        pos = 0.0
        for bar in tr:
            for (value, ns, newbpm) in bar:
                if ns is not None:
                    if newbpm is not None:
                        changes.append((pos, newbpm))
                    for (nm, octv, ch, vel) in ns:
                        notes.append((pos, pos + 1.0 / value, midi_number(nm, octv), ch, vel))
                pos += 1.0 / value
        total = max(total, pos)
    changes.sort()

    def seconds_at(p):
        t, last, cur = 0.0, 0.0, bpm
        for (cp, cb) in changes:
            if cp >= p:
                break
            t += (cp - last) * 240.0 / cur
            last, cur = cp, cb
        return t + (p - last) * 240.0 / cur

    intervals = sorted((seconds_at(a), seconds_at(b), n, ch, vel) for (a, b, n, ch, vel) in notes)
    final = changes[-1][1] if changes else bpm
    order = []
    for tr in tracks_spec:
        seq = []
        for bar in tr:
            for (value, ns, newbpm) in bar:
                for (nm, octv, ch, vel) in ns or []:
                    seq.append((midi_number(nm, octv), ch, vel))
        order.append(seq)
    return intervals, seconds_at(total), final, order


def intervals_of(log, label):
    """Replay a recorded log; check the balance and return the sounding intervals."""
    t = 0.0
    sounding = {}
    out = []
    for ev in log:
        if ev[0] == "sleep":
            check(ev[1] > 0, "%s: non-positive sleep %r" % (label, ev[1]))
            t += ev[1]
        elif ev[0] == "play":
            key = (ev[1], ev[2])
            check(key not in sounding, "%s: %r started twice" % (label, key))
            sounding[key] = (t, ev[3])
        elif ev[0] == "stop":
            key = (ev[1], ev[2])
            check(key in sounding, "%s: %r stopped but not sounding" % (label, key))
            if key in sounding:
                (t0, vel) = sounding.pop(key)
                out.append((t0, t, ev[1], ev[2], vel))
    check(not sounding, "%s: left sounding %r" % (label, sorted(sounding)))
    return sorted(out), t


def same_intervals(got, exp):
    if len(got) != len(exp):
        return False
    for (g, e) in zip(got, exp):
        if abs(g[0] - e[0]) > TOL or abs(g[1] - e[1]) > TOL or g[2:] != e[2:]:
            return False
    return True


def run_case(label, tracks_spec, bpm, how, instruments=None, channels=None):
    """Play a piece in the way `how` and check every clause on the recording."""
    seq, obs = RecSeq(), RecObs()
    seq.attach(obs)
    instruments = instruments or [None] * len(tracks_spec)
    tracks = [build_track(ts, ins) for (ts, ins) in zip(tracks_spec, instruments)]
    channels = channels or [i + 1 for i in range(len(tracks))]
    if how == "bar":
        res = seq.play_Bar(tracks[0][0], channels[0], bpm)
    elif how == "track":
        res = seq.play_Track(tracks[0], channels[0], bpm)
    elif how == "bars":
        res = seq.play_Bars([t[0] for t in tracks], channels, bpm)
    elif how == "tracks":
        res = seq.play_Tracks(tracks, channels, bpm)
    elif how == "composition":
        c = Composition()
        for t in tracks:
            c.add_track(t)
        res = seq.play_Composition(c, channels, bpm)
    exp_iv, exp_total, exp_bpm, exp_order = expected_of(tracks_spec, bpm)

    log = list(seq.log)
    # instrument announcements come first, one per track, on the track's channel
    if how in ("tracks", "composition"):
        head, log = log[: len(tracks)], log[len(tracks):]
        exp_head = []
        for (ins, ch) in zip(instruments, channels):
            # General MIDI program numbers, counted from 0; anything else announces 1
            prog = GM_PROGRAM[ins.name] if isinstance(ins, MidiInstrument) else 1
            exp_head.append(("instr", ch, prog))
        check(head == exp_head, "%s: instrument announcements %r != %r" % (label, head, exp_head))
    check(not [e for e in log if e[0] in ("instr", "cc")], "%s: stray instr/cc event" % label)

    got_iv, got_total = intervals_of(log, label)
    check(same_intervals(got_iv, exp_iv), "%s: intervals\n  got %r\n  exp %r" % (label, got_iv, exp_iv))
    check(abs(got_total - exp_total) <= TOL, "%s: slept %r, expected %r" % (label, got_total, exp_total))
    # order of the play events of every track (each track uses its own channels)
    for seq_exp in exp_order:
        chans = set(c for (_, c, _) in seq_exp)
        got = [(e[1], e[2], e[3]) for e in log if e[0] == "play" and e[2] in chans]
        check(got == seq_exp, "%s: play order %r != %r" % (label, got, seq_exp))
    # the observer saw exactly what the hooks saw
    check(obs.log == seq.log, "%s: observer log differs from hook log" % label)
    # the return value reports the final tempo
    check(isinstance(res, dict) and res.get("bpm") == exp_bpm, "%s: result %r, final bpm %r" % (label, res, exp_bpm))
    return seq, obs, res


def N(name, octave, ch, vel):
    return (name, octave, ch, vel)


# --- pieces -----------------------------------------------------------------
DQ = 8.0 / 3  # dotted quarter
melody = [
    [(4, [N("C", 4, 1, 100)], None), (8, [N("E", 4, 1, 90)], None), (8, None, None),
     (4, [N("G", 4, 1, 80), N("B", 4, 1, 70)], None), (4, None, None)],
    [(2, [N("F#", 3, 1, 64)], 90), (4, [N("Bb", 3, 1, 64)], None), (4, [N("C", 5, 1, 127)], 180)],
]
# a chord whose notes live on different channels (single track: order checked per channel)
mixed = [[(2, [N("C", 3, 2, 50), N("E", 3, 5, 60), N("G", 3, 9, 70)], None), (2, None, None)]]
quarters = [[(4, [N("C", 4, 1, 100)], None), (4, [N("D", 4, 1, 101)], None),
             (4, [N("E", 4, 1, 102)], None), (4, [N("F", 4, 1, 103)], None)]]
triplets = [[(6, [N("G", 5, 2, 60)], None), (6, [N("A", 5, 2, 61)], None), (6, [N("B", 5, 2, 62)], None),
             (6, None, None), (6, [N("A", 5, 2, 63)], None), (6, [N("G", 5, 2, 64)], None)]]
dotted = [[(DQ, [N("C", 2, 3, 40), N("G", 2, 3, 41)], None), (DQ, [N("D", 2, 3, 42)], None),
           (4, None, None)]]
fives = [[(5, [N("E", 6, 4, 30)], None), (5, [N("F", 6, 4, 31)], None), (5, None, None),
          (5, [N("G", 6, 4, 32)], None), (5, [N("A", 6, 4, 33)], None)]]
# two bars per track, a tempo change at the start of bar 2 (where every track has an onset)
two_a = [[(4, [N("C", 4, 1, 100)], None), (4, None, None), (2, [N("E", 4, 1, 100)], None)],
         [(1, [N("G", 4, 1, 100)], 60)]]
two_b = [[(8, [N("C", 3, 2, 80)], None), (8, [N("D", 3, 2, 80)], None), (DQ, [N("E", 3, 2, 80)], None),
          (DQ, None, None)],
         [(2, [N("F", 3, 2, 80)], None), (6, [N("G", 3, 2, 80)], None), (6, [N("A", 3, 2, 80)], None),
          (6, [N("B", 3, 2, 80)], None)]]
two_c = [[(1, None, None)], [(4, None, None), (DQ, [N("C", 6, 3, 20), N("Eb", 6, 3, 21)], None), (DQ, None, None)]]


def property_checks():
    # single note and single container
    seq, obs = RecSeq(), RecObs()
    seq.attach(obs)
    n = Note("A", 4, velocity=77, channel=6)
    seq.play_Note(n)
    seq.stop_Note(n)
    check(seq.log == [("play", 69, 6, 77), ("stop", 69, 6)], "single note: %r" % seq.log)  # A-4 is MIDI 69
    check(obs.log == seq.log, "single note: observer differs")
    seq, obs = RecSeq(), RecObs()
    seq.attach(obs)
    nc = NoteContainer([Note("C", 4, velocity=10, channel=2), Note("E", 4, velocity=20, channel=3)])
    seq.play_NoteContainer(nc)
    seq.stop_NoteContainer(nc)
    check(seq.log == [("play", 60, 2, 10), ("play", 64, 3, 20), ("stop", 60, 2), ("stop", 64, 3)],
          "container: %r" % seq.log)
    check(obs.log == seq.log, "container: observer differs")

    # bars and tracks on their own
    run_case("bar", [melody[:1]], 120, "bar")
    run_case("bar-tempo", [melody[1:]], 100, "bar")
    run_case("track", [melody], 120, "track")
    run_case("track-mixed-channels", [mixed], 72, "track")
    # several bars / tracks together, equal and unequal rhythms
    run_case("bars-equal", [quarters, [[(v, [N("C", 2, 2, 55)] if ns else None, b) for (v, ns, b) in quarters[0]]]],
             120, "bars")
    run_case("bars-4:6", [quarters, triplets], 120, "bars")
    run_case("bars-4:6:dotted", [quarters, triplets, dotted], 96, "bars")
    run_case("bars-4:6:dotted:5", [quarters, triplets, dotted, fives], 133, "bars")
    run_case("bars-one", [triplets], 60, "bars", channels=[7])
    run_case("tracks-1", [melody], 120, "tracks", instruments=[None], channels=[4])
    violin, flute, piano = MidiInstrument(), MidiInstrument(), MidiInstrument()
    violin.name, flute.name, piano.name = "Violin", "Flute", "Acoustic Grand Piano"
    run_case("tracks-3", [two_a, two_b, two_c], 120, "tracks", instruments=[violin, None, flute],
             channels=[1, 2, 3])
    run_case("tracks-4", [quarters, triplets, dotted, fives], 150, "tracks",
             instruments=[piano, Instrument(), flute, violin], channels=[9, 2, 14, 5])
    run_case("composition-2", [two_b, two_c], 84, "composition", instruments=[flute, None], channels=[2, 3])

    # observers: attach twice, detach, two observers
    seq, o1, o2 = RecSeq(), RecObs(), RecObs()
    seq.attach(o1)
    seq.attach(o1)
    seq.attach(o2)
    seq.play_Bar(build_bar(melody[0]), 1, 120)
    check(o1.log == seq.log and o2.log == seq.log, "attach twice: duplication or loss")
    seq.detach(o1)
    before = len(o1.log)
    seq.play_Bar(build_bar(melody[0]), 1, 120)
    check(len(o1.log) == before, "detached observer still receives")
    check(o2.log == seq.log, "remaining observer lost events")

    # control changes
    seq, obs = RecSeq(), RecObs()
    seq.attach(obs)
    for (c, v) in [(-1, 5), (129, 5), (7, -1), (7, 129), (-3, 400), (1000, 64)]:
        check(not seq.control_change(1, c, v), "control change (%r, %r) not refused" % (c, v))
    check(seq.log == [] and obs.log == [], "refused control change emitted %r / %r" % (seq.log, obs.log))
    check(seq.control_change(3, 7, 100) and seq.control_change(3, 0, 0) and seq.control_change(2, 127, 127),
          "valid control change refused")
    seq.modulation(4, 11)
    seq.main_volume(5, 22)
    seq.pan(6, 33)
    exp = [("cc", 3, 7, 100), ("cc", 3, 0, 0), ("cc", 2, 127, 127), ("cc", 4, 1, 11), ("cc", 5, 7, 22),
           ("cc", 6, 10, 33)]
    check(seq.log == exp, "control changes: %r" % seq.log)
    check(obs.log == seq.log, "control changes: observer differs")

def observed():
    # The complete return values (the property only says that they report the final tempo).
    seq = RecSeq()
    res = seq.play_Bar(build_bar(melody[1]), 1, 100)
    print("OBSERVED: play_Bar returns", sorted(res.items()))
    res = seq.play_Bars([build_bar(quarters[0]), build_bar(triplets[0])], [1, 2], 120)
    print("OBSERVED: play_Bars returns", sorted(res.items()))
    res = seq.play_Track(build_track(melody), 1, 120)
    print("OBSERVED: play_Track returns", sorted(res.items()))
    res = seq.play_Tracks([build_track(two_a), build_track(two_b)], [1, 2], 120)
    print("OBSERVED: play_Tracks returns", sorted(res.items()))
    print("OBSERVED: result == {'bpm': 60} is", res == {"bpm": 60})


def main():
    property_checks()
    observed()
    if failures:
        for f in failures:
            print("FAIL:", f)
        print("FAIL")
        return 1
    print("PASS")
    return 0


if __name__ == "__main__":
    sys.exit(main())
