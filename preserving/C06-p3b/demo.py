"""Demo for C06 / change b: the library learns one more chord shorthand, 'aug7'
(root, major third, augmented fifth, minor seventh - the same chord as '7#5').

(i)  checks the clauses of property C06 from first principles (letter
     arithmetic + semitone arithmetic, no mingus call used as oracle) for
     every shorthand the library under test knows;
(ii) prints OBSERVED: lines showing what 'aug7' does and how many shorthands
     the two tables hold.
"""
from __future__ import print_function

import sys

from mingus.core import chords
from mingus.core.mt_exceptions import FormatError, NoteFormatError

LETTERS = "CDEFGAB"
NATURAL = {"C": 0, "D": 2, "E": 4, "F": 5, "G": 7, "A": 9, "B": 11}

failures = []


def check(cond, msg):
    if not cond:
        failures.append(msg)


def pitch(note):
    return (NATURAL[note[0]] + note.count("#") - note.count("b")) % 12


def spell(root, degree, semitones):
    """The note `degree` letters above root, `semitones` half steps above it."""
    letter = LETTERS[(LETTERS.index(root[0]) + degree) % 7]
    acc = (pitch(root) + semitones - NATURAL[letter]) % 12
    if acc > 6:
        acc -= 12
    return letter + "#" * acc + "b" * -acc


# (letters above the root, semitones above the root) for every chord tone
m3, M3, P4, A4, d5, P5, A5 = (2, 3), (2, 4), (3, 5), (3, 6), (4, 6), (4, 7), (4, 8)
m2, M2, A2, M6, d7, m7, M7 = (1, 1), (1, 2), (1, 3), (5, 9), (6, 9), (6, 10), (6, 11)
DOM7 = [M3, P5, m7]
FORMULA = {
    "m": [m3, P5],
    "M": [M3, P5],
    "": [M3, P5],
    "dim": [m3, d5],
    "aug": [M3, A5],
    "+": [M3, A5],
    "7#5": [M3, A5, m7],
    "M7+5": [M3, A5, m7],
    "m7+": [M3, A5, m7],
    "aug7": [M3, A5, m7],  # known to the library only after change b
    "M7+": [M3, A5, M7],
    "7+": [M3, A5, M7],
    "sus47": [P4, P5, m7],
    "7sus4": [P4, P5, m7],
    "sus4": [P4, P5],
    "sus": [P4, P5],
    "sus2": [M2, P5],
    "11": [P5, m7, P4],
    "add11": [P5, m7, P4],
    "sus4b9": [P4, P5, m2],
    "susb9": [P4, P5, m2],
    "m7": [m3, P5, m7],
    "M7": [M3, P5, M7],
    "7": DOM7,
    "dom7": DOM7,
    "m7b5": [m3, d5, m7],
    "dim7": [m3, d5, d7],
    "m/M7": [m3, P5, M7],
    "mM7": [m3, P5, M7],
    "m6": [m3, P5, M6],
    "M6": [M3, P5, M6],
    "6": [M3, P5, M6],
    "6/7": [M3, P5, M6, m7],
    "67": [M3, P5, M6, m7],
    "6/9": [M3, P5, M6, M2],
    "69": [M3, P5, M6, M2],
    "9": DOM7 + [M2],
    "add9": DOM7 + [M2],
    "7b9": DOM7 + [m2],
    "7#9": DOM7 + [A2],
    "M9": [M3, P5, M7, M2],
    "m9": [m3, P5, m7, M2],
    "7#11": DOM7 + [A4],
    "m11": [m3, P5, m7, P4],
    "M11": [M3, P5, M7, M2, P4],
    "M13": [M3, P5, M7, M2, M6],
    "m13": [m3, P5, m7, M2, M6],
    "13": DOM7 + [M2, M6],
    "add13": DOM7 + [M2, M6],
    "7b5": [M3, d5, m7],
    "hendrix": DOM7 + [m3],
    "7b12": DOM7 + [m3],
    "5": [P5],
}

BUILDERS = {
    "major_triad": "M",
    "minor_triad": "m",
    "diminished_triad": "dim",
    "augmented_triad": "aug",
    "major_seventh": "M7",
    "minor_seventh": "m7",
    "dominant_seventh": "7",
    "half_diminished_seventh": "m7b5",
    "minor_seventh_flat_five": "m7b5",
    "diminished_seventh": "dim7",
    "minor_major_seventh": "m/M7",
    "minor_sixth": "m6",
    "major_sixth": "M6",
    "dominant_sixth": "6/7",
    "sixth_ninth": "6/9",
    "minor_ninth": "m9",
    "major_ninth": "M9",
    "dominant_ninth": "9",
    "dominant_flat_ninth": "7b9",
    "dominant_sharp_ninth": "7#9",
    "eleventh": "11",
    "minor_eleventh": "m11",
    "major_eleventh": "M11",
    "minor_thirteenth": "m13",
    "major_thirteenth": "M13",
    "dominant_thirteenth": "13",
    "suspended_triad": "sus",
    "suspended_second_triad": "sus2",
    "suspended_fourth_triad": "sus4",
    "suspended_seventh": "sus47",
    "suspended_fourth_ninth": "sus4b9",
    "augmented_major_seventh": "M7+",
    "augmented_minor_seventh": "m7+",
    "dominant_flat_five": "7b5",
    "lydian_dominant_seventh": "7#11",
    "hendrix_chord": "hendrix",
}

ROOTS = [l + a for l in LETTERS for a in ("", "#", "b", "##", "bb")]


def expected(root, key):
    return [root] + [spell(root, d, s) for d, s in FORMULA[key]]


def rejected(arg, classes):
    try:
        chords.from_shorthand(arg)
    except classes:
        return True
    except Exception:
        return False
    return False


def outcome(*args):
    try:
        return "returns %r" % (chords.from_shorthand(*args),)
    except Exception as e:
        return "%s: %s" % (type(e).__name__, e)


# --- clause: every known shorthand on every root follows its formula ------
known = sorted(chords.chord_shorthand)
for key in known:
    check(key in FORMULA, "no first-principles formula for shorthand %r" % key)
for key in known:
    if key not in FORMULA:
        continue
    for root in ROOTS:
        got = chords.from_shorthand(root + key)
        check(got == expected(root, key), "%s%s -> %r, expected %r" % (root, key, got, expected(root, key)))
        check(isinstance(got, list) and got[0] == root, "%s%s does not start on its root" % (root, key))

# spot values written out by hand
check(chords.from_shorthand("Cm7") == ["C", "Eb", "G", "Bb"], "Cm7")
check(chords.from_shorthand("C7#11") == ["C", "E", "G", "Bb", "F#"], "C7#11")
check(chords.from_shorthand("Cdim7") == ["C", "Eb", "Gb", "Bbb"], "Cdim7")
check(chords.from_shorthand("Fbdim7") == ["Fb", "Abb", "Cbb", "Ebbb"], "Fbdim7")
check(chords.from_shorthand("G##M7") == ["G##", "B##", "D##", "F###"], "G##M7")

# --- clause: the named builders give the same chords ----------------------
for fname, key in sorted(BUILDERS.items()):
    f = getattr(chords, fname)
    for root in ROOTS:
        check(f(root) == expected(root, key), "%s(%r) -> %r" % (fname, root, f(root)))

# --- clause: alias spellings ----------------------------------------------
for key in known:
    if key not in FORMULA:
        continue
    variants = set()
    for a in ("min", "mi", "-"):
        variants.add(key.replace("m", a))
    for a in ("maj", "ma"):
        variants.add(key.replace("M", a))
    for v in variants:
        if "dim" in key or "hendrix" in key or "dom" in key:
            continue  # the 'm' in these words is not the minor sign
        for root in ("C", "F#", "Bb", "Ebb", "A##"):
            check(chords.from_shorthand(root + v) == expected(root, key), "alias %s%s" % (root, v))
check(chords.from_shorthand("Amin7") == ["A", "C", "E", "G"], "Amin7")
check(chords.from_shorthand("A-7") == ["A", "C", "E", "G"], "A-7")
check(chords.from_shorthand("Ami7") == ["A", "C", "E", "G"], "Ami7")
check(chords.from_shorthand("Amaj7") == ["A", "C#", "E", "G#"], "Amaj7")
check(chords.from_shorthand("Ama7") == ["A", "C#", "E", "G#"], "Ama7")

# --- clause: slash chords ---------------------------------------------------
for key in ("", "m", "m7", "7", "dim7", "sus4", "M9", "13", "m/M7", "6/9", "6/7", "5"):
    for root in ("C", "Db", "F#", "Gbb", "B##"):
        for bass in ("C", "G", "Bb", "F#", "Ebb", "A##", root):
            got = chords.from_shorthand("%s%s/%s" % (root, key, bass))
            check(got == [bass] + expected(root, key), "slash %s%s/%s -> %r" % (root, key, bass, got))

# --- clause: polychords -----------------------------------------------------
def joined(first, second):
    res = list(first)
    for n in second:
        if not res or n != res[-1]:
            res.append(n)
    return res


for kx in ("", "m", "7", "m7", "dim7", "sus2", "9"):
    for ky in ("", "m", "M7", "7b9", "5"):
        for rx in ("D", "F#", "Bb", "Abb"):
            for ry in ("G", "C#", "Eb", "F##"):
                got = chords.from_shorthand("%s%s|%s%s" % (rx, kx, ry, ky))
                check(got == joined(expected(ry, ky), expected(rx, kx)), "poly %s%s|%s%s -> %r" % (rx, kx, ry, ky, got))
check(chords.from_shorthand("Dm|G") == ["G", "B", "D", "F", "A"], "Dm|G")
check(chords.from_shorthand("Am/C|F") == ["F", "A", "C", "A", "C", "E"], "Am/C|F")

# --- clause: NC, lists ------------------------------------------------------
check(chords.from_shorthand("NC") == [], "NC")
check(
    chords.from_shorthand(["Am", "NC", "C/G", "Dm|G"])
    == [["A", "C", "E"], [], ["G", "C", "E", "G"], ["G", "B", "D", "F", "A"]],
    "list maps element-wise",
)
check(chords.from_shorthand([]) == [], "empty list")

# --- clause: rejection ------------------------------------------------------
for bad in ("Cfoo", "Bollocks", "Asd", "C7#13x", "Dbm77", "Cm7 ", "C#maj7b"):
    check(rejected(bad, FormatError), "unknown shorthand %r must raise FormatError" % bad)
for bad in ("Hm7", "ollocks", "cm7", "7", "#C", "@", " C"):
    check(rejected(bad, NoteFormatError), "bad root %r must raise NoteFormatError" % bad)
for bad in ("C/H", "Cm7/x", "C/G7", "Am/c"):
    check(rejected(bad, NoteFormatError), "bad bass %r must raise NoteFormatError" % bad)
for bad in ("Cfoo/G", "Cfoo|G", "C|Gfoo"):
    check(rejected(bad, FormatError), "unknown shorthand in %r must raise FormatError" % bad)
for bad in ("C|H", "H|C"):
    check(rejected(bad, NoteFormatError), "bad root in %r must raise NoteFormatError" % bad)
# wrong in two ways: either of the two errors is a correct rejection
for bad in ("Cfoo/H", "Cxyz/", "Dbbar/g#", "Hfoo/X"):
    check(rejected(bad, (FormatError, NoteFormatError)), "%r must be rejected" % bad)

# --- clause: constructible set == set with a meaning; same meaning, same chord
check(set(chords.chord_shorthand) == set(chords.chord_shorthand_meaning), "key sets differ")
for key in chords.chord_shorthand_meaning:
    check(not rejected("C" + key, Exception), "C%s has a meaning but cannot be built" % key)
by_meaning = {}
for key, meaning in chords.chord_shorthand_meaning.items():
    by_meaning.setdefault(meaning, []).append(key)
for meaning, ks in by_meaning.items():
    for root in ROOTS:
        built = [chords.from_shorthand(root + k) for k in ks]
        check(all(b == built[0] for b in built), "%r: %r build different chords on %s" % (meaning, ks, root))

# --- what the change alters -------------------------------------------------
for s in ("Caug7", "Ebaug7", "F#aug7/C#", "Dm|Gaug7"):
    print("OBSERVED: from_shorthand(%r) -> %s" % (s, outcome(s)))
print("OBSERVED: 'aug7' in chord_shorthand: %r, in chord_shorthand_meaning: %r"
      % ("aug7" in chords.chord_shorthand, "aug7" in chords.chord_shorthand_meaning))
print("OBSERVED: number of shorthands: %d constructible, %d with a meaning"
      % (len(chords.chord_shorthand), len(chords.chord_shorthand_meaning)))
if "aug7" in chords.chord_shorthand:
    # the new shorthand obeys every clause as well (already covered by the
    # loops above, repeated here with hand-written values)
    check(chords.from_shorthand("Caug7") == ["C", "E", "G#", "Bb"], "Caug7")
    check(chords.from_shorthand("Ebaug7") == ["Eb", "G", "B", "Db"], "Ebaug7")
    check(chords.from_shorthand("B##aug7") == ["B##", "D###", "F####", "A##"], "B##aug7")
    check(chords.from_shorthand("F#aug7/C#") == ["C#", "F#", "A#", "C##", "E"], "F#aug7/C#")
    check(chords.from_shorthand("Caug7") == chords.from_shorthand("C7#5"), "aug7 == 7#5")
    check(chords.chord_shorthand_meaning["aug7"] == chords.chord_shorthand_meaning["7#5"], "meaning")

if failures:
    for f in failures[:20]:
        print("FAIL:", f)
    print("FAIL (%d checks failed)" % len(failures))
    sys.exit(1)
print("PASS")
sys.exit(0)
