"""Demo for C04 / change a (interval() rewritten with letter arithmetic; the
key is looked up before the start note is validated).

(i) checks the clauses of property C04 from first principles (own tables,
    plain arithmetic) and prints PASS / exits 0 when they all hold;
(ii) prints OBSERVED: lines showing the behaviour the change alters.
"""
from __future__ import print_function

import sys

from mingus.core import intervals, keys
from mingus.core.mt_exceptions import NoteFormatError, RangeError

FAIL = []


def check(cond, msg):
    if not cond:
        FAIL.append(msg)


# ---- first principles ------------------------------------------------------
LETTERS = "CDEFGAB"
NATURAL = {"C": 0, "D": 2, "E": 4, "F": 5, "G": 7, "A": 9, "B": 11}
SHARP_ORDER = ["F", "C", "G", "D", "A", "E", "B"]  # circle of fifths
FLAT_ORDER = ["B", "E", "A", "D", "G", "C", "F"]
MAJOR = ["Cb", "Gb", "Db", "Ab", "Eb", "Bb", "F", "C", "G", "D", "A", "E", "B", "F#", "C#"]
MINOR = ["ab", "eb", "bb", "f", "c", "g", "d", "a", "e", "b", "f#", "c#", "g#", "d#", "a#"]
MAJOR_STEPS = [2, 2, 1, 2, 2, 2, 1]
MINOR_STEPS = [2, 1, 2, 2, 1, 2, 2]


def pc(note):
    return (NATURAL[note[0]] + note.count("#") - note.count("b")) % 12


def expected_accidentals(n):
    if n > 0:
        return [l + "#" for l in SHARP_ORDER[:n]]
    return [l + "b" for l in FLAT_ORDER[:-n]]


def expected_notes(key, n):
    acc = dict((a[0], a[1]) for a in expected_accidentals(n))
    start = LETTERS.index(key[0].upper())
    return [LETTERS[(start + i) % 7] + acc.get(LETTERS[(start + i) % 7], "") for i in range(7)]


def raises(exc, f, *args):
    try:
        f(*args)
    except exc:
        return True
    except Exception:
        return False
    return False


EXPECTED = {}
for i in range(15):
    n = i - 7
    for key, steps, mode in ((MAJOR[i], MAJOR_STEPS, "major"), (MINOR[i], MINOR_STEPS, "minor")):
        exp = expected_notes(key, n)
        EXPECTED[key] = exp
        got = keys.get_notes(key)
        tonic = key[0].upper() + key[1:]
        check(list(got) == exp, "notes of %s: %r" % (key, got))
        check(got[0] == tonic, "tonic of %s" % key)
        check([x[0] for x in got] == [LETTERS[(LETTERS.index(tonic[0]) + j) % 7] for j in range(7)],
              "letters of %s" % key)
        check([(pc(got[(j + 1) % 7]) - pc(got[j])) % 12 for j in range(7)] == steps,
              "step pattern of %s" % key)
        sig = keys.get_key_signature(key)
        check(sig == n, "signature of %s: %r" % (key, sig))
        acc = keys.get_key_signature_accidentals(key)
        check(list(acc) == expected_accidentals(n), "accidentals of %s: %r" % (key, acc))
        check(len(acc) == abs(n), "accidental count of %s" % key)
        check(all(a[1:] == ("#" if n > 0 else "b") for a in acc), "accidental sign of %s" % key)
        check(sorted(x for x in got if len(x) > 1) == sorted(acc), "altered notes of %s" % key)
        k = keys.Key(key)
        check(k.key == key and k.mode == mode and k.signature == n, "Key(%s) fields" % key)
        word = {"#": "sharp ", "b": "flat "}.get(key[1:], "")
        check(k.name == "%s %s%s" % (key[0].upper(), word, mode), "Key(%s).name %r" % (key, k.name))
    pair = keys.get_key(n)
    check(len(pair) == 2 and pair[0] == MAJOR[i] and pair[1] == MINOR[i], "get_key(%d)" % n)
    check(keys.get_key_signature(pair[0]) == n and keys.get_key_signature(pair[1]) == n, "inverse %d" % n)
    check(keys.relative_minor(MAJOR[i]) == MINOR[i], "relative minor of %s" % MAJOR[i])
    check(keys.relative_major(MINOR[i]) == MAJOR[i], "relative major of %s" % MINOR[i])
    check(sorted(keys.get_notes(MAJOR[i])) == sorted(keys.get_notes(MINOR[i])), "shared note set %d" % n)
    check((pc(MINOR[i][0].upper() + MINOR[i][1:]) - pc(MAJOR[i])) % 12 == 9, "9 semitones %d" % n)

for n in (-100, -9, -8, 8, 9, 100):
    check(raises(RangeError, keys.get_key, n), "get_key(%d) must raise RangeError" % n)

for bad in ("", "H", "h", "c##", "C major", "Am", "cb", "A#", "G#", "db", "Fb", " C", "C ", "CB",
            "c b", "C#m", "B#", "e#", "0", "major"):
    for f in (keys.get_key_signature, keys.get_key_signature_accidentals, keys.get_notes,
              keys.Key, keys.relative_major, keys.relative_minor):
        check(raises(NoteFormatError, f, bad), "%s(%r) must raise NoteFormatError" % (f.__name__, bad))
    check(keys.is_valid_key(bad) is False, "is_valid_key(%r)" % bad)

STEP = [None, intervals.second, intervals.third, intervals.fourth, intervals.fifth,
        intervals.sixth, intervals.seventh]
for key, exp in sorted(EXPECTED.items()):
    by_letter = dict((x[0], x) for x in exp)
    for letter in LETTERS:
        for suffix in ("", "#", "b", "##", "bb", "#b"):
            for step in range(1, 7):
                want = by_letter[LETTERS[(LETTERS.index(letter) + step) % 7]]
                got = STEP[step](letter + suffix, key)
                check(got == want, "step %d of %s in %s: %r" % (step, letter + suffix, key, got))
                got = intervals.interval(key, letter + suffix, step)
                check(got == want, "interval(%s, %s, %d): %r" % (key, letter + suffix, step, got))
    check(raises(NoteFormatError, intervals.second, "C", key + "x"), "second in unknown key")


# ---- behaviour that the change alters ---------------------------------------
def outcome(f, *args):
    try:
        return "returns %r" % (f(*args),)
    except Exception as e:  # noqa
        return "raises %s" % type(e).__name__


print("OBSERVED: interval('nokey', 'H', 1) (key AND note wrong) ->", outcome(intervals.interval, "nokey", "H", 1))
print("OBSERVED: third('c', 'X') (lower-case note, unknown key) ->", outcome(intervals.third, "c", "X"))
print("OBSERVED: intervals has private _LETTERS table:", hasattr(intervals, "_LETTERS"))

if FAIL:
    print("FAIL (%d)" % len(FAIL))
    for m in FAIL[:20]:
        print("  -", m)
    sys.exit(1)
print("PASS")
sys.exit(0)
