from __future__ import print_function

import itertools
import sys

import mingus.core.notes as notes
from mingus.core.mt_exceptions import FormatError, NoteFormatError, RangeError

# ---------------------------------------------------------------------------
# (i) Property C01, checked from first principles (no mingus call is used as
#     the expected value of another mingus call).
# ---------------------------------------------------------------------------
NATURAL = {"C": 0, "D": 2, "E": 4, "F": 5, "G": 7, "A": 9, "B": 11}
MAXLEN = 6  # all 2^k orderings of '#'/'b' for k = 0..MAXLEN
failures = []


def fail(msg):
    failures.append(msg)


def well_formed(name):
    return (
        isinstance(name, str)
        and len(name) >= 1
        and name[0] in NATURAL
        and all(c in "#b" for c in name[1:])
    )


def pc(name):
    """Pitch class of a well-formed name by plain arithmetic."""
    assert well_formed(name), name
    return (NATURAL[name[0]] + name.count("#") - name.count("b")) % 12


def raises(exc, func, *args):
    try:
        func(*args)
    except exc:
        return True
    except Exception:
        return False
    return False


names = []
for letter in "ABCDEFG":
    for k in range(MAXLEN + 1):
        for acc in itertools.product("#b", repeat=k):
            names.append(letter + "".join(acc))

for name in names:
    letter = name[0]
    net = name.count("#") - name.count("b")
    want = (NATURAL[letter] + net) % 12

    # validity predicate and name -> number
    if notes.is_valid_note(name) is not True:
        fail("is_valid_note(%r) is not True" % name)
    if notes.note_to_int(name) != want:
        fail("note_to_int(%r) = %r, want %r" % (name, notes.note_to_int(name), want))

    # augment / diminish: +1 / -1, same letter, still a note name
    for func, delta in ((notes.augment, 1), (notes.diminish, -1)):
        res = func(name)
        if not well_formed(res) or res[0] != letter or pc(res) != (want + delta) % 12:
            fail("%s(%r) = %r" % (func.__name__, name, res))

    # redundancy removal: letter + exactly the net number of sharps or flats
    expect = letter + ("#" * net if net >= 0 else "b" * -net)
    if notes.remove_redundant_accidentals(name) != expect:
        fail(
            "remove_redundant_accidentals(%r) = %r, want %r"
            % (name, notes.remove_redundant_accidentals(name), expect)
        )

    # reduction: same pitch class, at most one accidental, '#' for a net
    # raise, 'b' for a net lowering
    red = notes.reduce_accidentals(name)
    ok = well_formed(red) and len(red) <= 2 and pc(red) == want
    if ok and len(red) == 2:
        if net > 0 and red[1] != "#":
            ok = False
        if net < 0 and red[1] != "b":
            ok = False
        if net == 0:
            ok = False
    if ok and net == 0 and red != letter:
        ok = False
    if not ok:
        fail("reduce_accidentals(%r) = %r" % (name, red))

# enharmonic exactly when the pitch classes are equal
sample = [n for n in names if len(n) <= 4] + ["C" + "#" * 12, "Bb" * 1 + "b" * 11, "E#b#b#b#"]
for n1 in sample:
    for n2 in sample:
        got = notes.is_enharmonic(n1, n2)
        if bool(got) != (pc(n1) == pc(n2)):
            fail("is_enharmonic(%r, %r) = %r" % (n1, n2, got))

# number -> name and back; sharp style: naturals and single sharps only,
# flat style: naturals and single flats only
for n in range(12):
    for style in "#b":
        res = notes.int_to_note(n, style)
        if not (well_formed(res) and len(res) <= 2 and (len(res) == 1 or res[1] == style)):
            fail("int_to_note(%d, %r) = %r has the wrong form" % (n, style, res))
        elif pc(res) != n or notes.note_to_int(res) != n:
            fail("int_to_note(%d, %r) = %r does not go back to %d" % (n, style, res, n))
    if notes.int_to_note(n) != notes.int_to_note(n, "#") or "b" in notes.int_to_note(n):
        fail("int_to_note(%d) default is not the sharp style" % n)

# malformed input (non-empty strings that are not note names)
malformed = [
    "H", "c", "d#", "bb", "b", "#", "##", "1", "C$", "C#x", "Cx#", " C", "C ",
    "C#B", "CC", "Cis", "asdasd", "C###f", "E*", "C-", "C#\n", "♯", "C♯",
    "Do", "C4", "C#4", "c#", "Bbb3", "A-4",
]
for bad in malformed:
    assert not well_formed(bad)
    if notes.is_valid_note(bad) is not False:
        fail("is_valid_note(%r) is not False" % bad)
    if not raises(NoteFormatError, notes.note_to_int, bad):
        fail("note_to_int(%r) does not raise NoteFormatError" % bad)
    if not raises(NoteFormatError, notes.reduce_accidentals, bad):
        fail("reduce_accidentals(%r) does not raise NoteFormatError" % bad)

# number -> name: integers outside 0-11 and unknown styles
for n in [-1, 12, 13, -12, -123, 24, 100, 123123, 2 ** 40, -(2 ** 40)]:
    for style in "#b":
        if not raises(RangeError, notes.int_to_note, n, style):
            fail("int_to_note(%r, %r) does not raise RangeError" % (n, style))
    if not raises(RangeError, notes.int_to_note, n):
        fail("int_to_note(%r) does not raise RangeError" % n)
for style in ["x", "", "##", "bb", "B", "sharp", "flat", "#b", " "]:
    for n in range(12):
        if not raises(FormatError, notes.int_to_note, n, style):
            fail("int_to_note(%d, %r) does not raise FormatError" % (n, style))


# ---------------------------------------------------------------------------
# (ii) Behaviour that the change alters (not pinned down by the property).
# ---------------------------------------------------------------------------
def show(label, func, *args):
    try:
        res = repr(func(*args))
    except Exception as e:  # noqa
        res = "raises %s(%s)" % (type(e).__name__, e)
    print("OBSERVED: %s -> %s" % (label, res))


# b. augment / diminish on names with MIXED accidentals: the property only
#    fixes the letter and the pitch class of the result, not its spelling.
show("augment('Cb#')", notes.augment, "Cb#")
show("augment('Eb##')", notes.augment, "Eb##")
show("diminish('C#b')", notes.diminish, "C#b")
show("diminish('G#bb')", notes.diminish, "G#bb")
show("len(augment('A' + 'b#' * 5))", lambda n: len(notes.augment(n)), "A" + "b#" * 5)

if failures:
    for f in failures[:20]:
        print("FAIL:", f)
    print("FAIL (%d property violations)" % len(failures))
    sys.exit(1)
print("PASS")
sys.exit(0)
