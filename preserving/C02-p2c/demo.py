import itertools
import re
import sys

from mingus.core import intervals, notes

LETTERS = "CDEFGAB"
BASE = {"C": 0, "D": 2, "E": 4, "F": 5, "G": 7, "A": 9, "B": 11}

# constructor name -> (interval number, semitones above the input)
CONSTRUCTORS = {
    "minor_unison": (1, 11), "major_unison": (1, 0), "augmented_unison": (1, 1),
    "minor_second": (2, 1), "major_second": (2, 2),
    "minor_third": (3, 3), "major_third": (3, 4),
    "minor_fourth": (4, 4), "major_fourth": (4, 5), "perfect_fourth": (4, 5),
    "minor_fifth": (5, 6), "major_fifth": (5, 7), "perfect_fifth": (5, 7),
    "minor_sixth": (6, 8), "major_sixth": (6, 9),
    "minor_seventh": (7, 10), "major_seventh": (7, 11),
}
assert len(CONSTRUCTORS) == 17
CLEAN = re.compile(r"\A[A-G](#{0,6}|b{0,6})\Z")


def pc(name):
    return (BASE[name[0]] + name.count("#") - name.count("b")) % 12


def sample_names():
    out = []
    for letter in LETTERS:
        for n in range(0, 5):  # every accidental string (mixed too) up to length 4
            for acc in itertools.product("#b", repeat=n):
                out.append(letter + "".join(acc))
        for n in range(5, 15):  # long pure chains
            out.append(letter + "#" * n)
            out.append(letter + "b" * n)
        out.append(letter + "#b" * 4)
        out.append(letter + "b#b" * 3)
    return out


def check_property():
    failures = []
    names = sample_names()
    for rounds in range(2):  # twice: a second call must give the same answer
        for name in names:
            for cname, (number, semis) in CONSTRUCTORS.items():
                res = getattr(intervals, cname)(name)
                if not isinstance(res, str) or not CLEAN.match(res):
                    failures.append("%s(%r) -> %r is not a clean name" % (cname, name, res))
                    continue
                want_letter = LETTERS[(LETTERS.index(name[0]) + number - 1) % 7]
                if res[0] != want_letter:
                    failures.append("%s(%r) -> %r wrong letter" % (cname, name, res))
                if (pc(res) - pc(name)) % 12 != semis:
                    failures.append("%s(%r) -> %r wrong distance" % (cname, name, res))
    short = [n for n in names if len(n) <= 3] + ["C#######", "Fbbbbbbbb", "B#b#b#b#b"]
    for a in short:
        for b in short:
            m = intervals.measure(a, b)
            want = (pc(b) - pc(a)) % 12
            if m != want:
                failures.append("measure(%r,%r) = %r, want %r" % (a, b, m, want))
            for inc in (True, False):
                perfect = want in (0, 7) or (inc and want == 5)
                imperfect = want in (3, 4, 8, 9)
                if bool(intervals.is_perfect_consonant(a, b, inc)) != perfect:
                    failures.append("is_perfect_consonant(%r,%r,%r)" % (a, b, inc))
                if bool(intervals.is_consonant(a, b, inc)) != (perfect or imperfect):
                    failures.append("is_consonant(%r,%r,%r)" % (a, b, inc))
                # is_dissonant's flag means "count fourths as dissonant"
                if bool(intervals.is_dissonant(a, b, not inc)) != (not (perfect or imperfect)):
                    failures.append("is_dissonant(%r,%r,%r)" % (a, b, not inc))
            if bool(intervals.is_imperfect_consonant(a, b)) != (want in (3, 4, 8, 9)):
                failures.append("is_imperfect_consonant(%r,%r)" % (a, b))
            if bool(intervals.is_dissonant(a, b)) != (not intervals.is_consonant(a, b)):
                failures.append("is_dissonant default != not is_consonant default (%r,%r)" % (a, b))
    return failures


def _show(label, func, *args):
    try:
        out = repr(func(*args))
    except Exception as exc:  # noqa
        out = "raises %s(%s)" % (type(exc).__name__, exc)
    print("OBSERVED: %s -> %s" % (label, out))


def observed():
    # Both names malformed (outside the property's domain): which one does
    # the error talk about?
    _show("measure('H#', 'Jb')", intervals.measure, "H#", "Jb")
    _show("is_consonant('c', 'x')", intervals.is_consonant, "c", "x")
    _show("is_perfect_consonant('C$', 'D!', False)", intervals.is_perfect_consonant, "C$", "D!", False)
    _show("is_imperfect_consonant('', 'Q')", intervals.is_imperfect_consonant, "", "Q")
    _show("is_dissonant('do', 're')", intervals.is_dissonant, "do", "re")


if __name__ == "__main__":
    observed()
    failures = check_property()
    for f in failures[:20]:
        print("FAIL: " + f)
    print("PASS" if not failures else "FAILED (%d)" % len(failures))
    sys.exit(0 if not failures else 1)
