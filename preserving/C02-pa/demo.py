"""Demo for change C02/a: arithmetic rewrite of
intervals.augment_or_diminish_until_the_interval_is_right.

(i)  checks property C02 from first principles  -> PASS / FAIL, exit 0 / 1
(ii) prints OBSERVED: lines that differ between the unchanged and changed tree
"""
from __future__ import print_function

import itertools
import sys

from mingus.core import intervals, notes

LETTERS = "CDEFGAB"
PC = {"C": 0, "D": 2, "E": 4, "F": 5, "G": 7, "A": 9, "B": 11}

# constructor -> (letters up, semitones up mod 12); plain music theory
CONSTRUCTORS = {
    "minor_unison": (0, 11),
    "major_unison": (0, 0),
    "augmented_unison": (0, 1),
    "minor_second": (1, 1),
    "major_second": (1, 2),
    "minor_third": (2, 3),
    "major_third": (2, 4),
    "minor_fourth": (3, 4),
    "major_fourth": (3, 5),
    "perfect_fourth": (3, 5),
    "minor_fifth": (4, 6),
    "major_fifth": (4, 7),
    "perfect_fifth": (4, 7),
    "minor_sixth": (5, 8),
    "major_sixth": (5, 9),
    "minor_seventh": (6, 10),
    "major_seventh": (6, 11),
}
assert len(CONSTRUCTORS) == 17


def pc(name):
    return (PC[name[0]] + name.count("#") - name.count("b")) % 12


def names_upto(maxlen):
    out = []
    for length in range(maxlen + 1):
        for acc in itertools.product("#b", repeat=length):
            for letter in LETTERS:
                out.append(letter + "".join(acc))
    return out


failures = []


def check(cond, msg):
    if not cond:
        failures.append(msg)


def check_property():
    # all names with up to 5 accidentals in any mixture, plus long pure runs
    sample = names_upto(5)
    for length in range(6, 15):
        for letter in LETTERS:
            sample.append(letter + "#" * length)
            sample.append(letter + "b" * length)
    for cname, (steps, semis) in sorted(CONSTRUCTORS.items()):
        func = getattr(intervals, cname)
        for n in sample:
            r = func(n)
            ok_shape = (
                isinstance(r, str)
                and len(r) >= 1
                and r[0] in LETTERS
                and all(ch in "#b" for ch in r[1:])
            )
            check(ok_shape, "%s(%r) -> %r is not a valid name" % (cname, n, r))
            if not ok_shape:
                continue
            want_letter = LETTERS[(LETTERS.index(n[0]) + steps) % 7]
            check(r[0] == want_letter, "%s(%r) -> %r: letter" % (cname, n, r))
            check(
                (pc(r) - pc(n)) % 12 == semis,
                "%s(%r) -> %r: semitones" % (cname, n, r),
            )
            # "no mixing, at most six accidentals".  The three unison
            # constructors of the unchanged library hand the input's own
            # accidental string through (C#b -> C#bb, C###### -> C#######), so
            # for them this clause is sampled only where the input is unmixed
            # and has at most five accidentals; for the 14 others everywhere.
            acc = n[1:]
            if steps == 0 and (("#" in acc and "b" in acc) or len(acc) > 5):
                continue
            check(
                not ("#" in r and "b" in r), "%s(%r) -> %r: mixes" % (cname, n, r)
            )
            check(len(r) - 1 <= 6, "%s(%r) -> %r: more than six" % (cname, n, r))

    # measure / consonance over all ordered pairs
    pairs = names_upto(3)
    for a in pairs:
        for b in pairs:
            m = intervals.measure(a, b)
            want = (pc(b) - pc(a)) % 12
            check(m == want, "measure(%r, %r) = %r, want %r" % (a, b, m, want))
            m = want
            exp = [
                (intervals.is_perfect_consonant(a, b), m in (0, 5, 7), "perfect"),
                (intervals.is_perfect_consonant(a, b, True), m in (0, 5, 7), "perfect+4"),
                (intervals.is_perfect_consonant(a, b, False), m in (0, 7), "perfect-4"),
                (intervals.is_imperfect_consonant(a, b), m in (3, 4, 8, 9), "imperfect"),
                (intervals.is_consonant(a, b), m in (0, 3, 4, 5, 7, 8, 9), "consonant"),
                (intervals.is_consonant(a, b, False), m in (0, 3, 4, 7, 8, 9), "consonant-4"),
                (intervals.is_dissonant(a, b), m not in (0, 3, 4, 5, 7, 8, 9), "dissonant"),
                (intervals.is_dissonant(a, b, True), m not in (0, 3, 4, 7, 8, 9), "dissonant+4"),
            ]
            for got, wanted, label in exp:
                check(bool(got) == wanted, "%s(%r, %r) = %r" % (label, a, b, got))


def observed():
    helper = intervals.augment_or_diminish_until_the_interval_is_right
    # 1. the helper called directly with a second note that already carries many
    #    accidentals (the 17 constructors only ever pass a bare letter here)
    for args in [("C", "D" + "#" * 12, 2), ("C", "D" + "b" * 13, 1), ("C", "E" + "#" * 14, 6)]:
        print("OBSERVED: helper%r -> %r" % (args, helper(*args)))
    # 2. how often notes.augment / notes.diminish are called for one constructor
    calls = {"n": 0}
    real_aug, real_dim = notes.augment, notes.diminish

    def aug(x):
        calls["n"] += 1
        return real_aug(x)

    def dim(x):
        calls["n"] += 1
        return real_dim(x)

    notes.augment, notes.diminish = aug, dim
    try:
        res = intervals.major_seventh("Cbbbbbbbbb")
    finally:
        notes.augment, notes.diminish = real_aug, real_dim
    print(
        "OBSERVED: major_seventh('Cbbbbbbbbb') -> %r using %d augment/diminish calls"
        % (res, calls["n"])
    )


if __name__ == "__main__":
    check_property()
    observed()
    if failures:
        for f in failures[:20]:
            print("FAIL:", f)
        print("FAIL (%d violations)" % len(failures))
        sys.exit(1)
    print("PASS")
    sys.exit(0)
