"""Demo for change a (arithmetic, table-driven from_shorthand).

(i)  checks property C03 from first principles, prints PASS / FAIL;
(ii) prints OBSERVED: lines showing what the change alters (far outside the
     property's domain: start names with five or more accidentals, and names
     mixing sharps and flats).
"""
from __future__ import print_function

import sys

from mingus.core import intervals

LETTERS = "CDEFGAB"
NATURAL = {"C": 0, "D": 2, "E": 4, "F": 5, "G": 7, "A": 9, "B": 11}
MAJOR = [0, 2, 4, 5, 7, 9, 11]  # semitones of the major/perfect 1st..7th
NUMBER = ["unison", "second", "third", "fourth", "fifth", "sixth", "seventh"]
ACCS = {"": 0, "#": 1, "##": 2, "b": -1, "bb": -2}
NAMES = [(l + a) for l in LETTERS for a in ACCS]
SHORTHANDS = [a + str(d) for a in ACCS for d in range(1, 8)]

failures = []


def fail(msg):
    if len(failures) < 20:
        print("FAIL:", msg)
    failures.append(msg)


def spell(letter, acc):
    return letter + ("#" * acc if acc >= 0 else "b" * -acc)


def acc_of(name):
    return ACCS[name[1:]]


def check_naming():
    n = 0
    for n1 in NAMES:
        for n2 in NAMES:
            i1, i2 = LETTERS.index(n1[0]), LETTERS.index(n2[0])
            steps = (i2 - i1) % 7
            natural = (NATURAL[n2[0]] - NATURAL[n1[0]]) % 12
            dist = natural + acc_of(n2) - acc_of(n1)
            if not 0 <= dist <= 11:
                continue  # outside the property's domain
            n += 1
            off = dist - MAJOR[steps]
            if off == 0:
                if steps in (3, 4):
                    quals = ["perfect"]
                elif steps == 0:
                    quals = ["major", "perfect"]  # statement: "major or perfect"
                else:
                    quals = ["major"]
            elif off == -1:
                quals = ["minor"]
            elif off < -1:
                quals = ["diminished"]
            else:
                quals = ["augmented"]
            got = intervals.determine(n1, n2)
            if got not in [q + " " + NUMBER[steps] for q in quals]:
                fail("determine(%r, %r) = %r, expected %s %s" % (n1, n2, got, quals, NUMBER[steps]))
            if intervals.determine(n1, n2, False) != got:
                fail("determine long form differs with explicit shorthand=False")
            sh = intervals.determine(n1, n2, True)
            back = intervals.from_shorthand(n1, sh)
            if back != n2:
                fail("from_shorthand(%r, %r) = %r, expected %r" % (n1, sh, back, n2))
    return n


def check_shorthand():
    n = 0
    for name in NAMES:
        i = LETTERS.index(name[0])
        a = acc_of(name)
        for sh in SHORTHANDS:
            deg = int(sh[-1])
            size = MAJOR[deg - 1] + sh.count("#") - sh.count("b")
            # upward
            lt = LETTERS[(i + deg - 1) % 7]
            natural = (NATURAL[lt] - NATURAL[name[0]]) % 12
            want_up = spell(lt, a + size - natural)
            got_up = intervals.from_shorthand(name, sh)
            if got_up != want_up:
                fail("from_shorthand(%r, %r) = %r, expected %r" % (name, sh, got_up, want_up))
            if intervals.from_shorthand(name, sh, True) != got_up:
                fail("up=True differs from the default")
            # downward
            ld = LETTERS[(i - (deg - 1)) % 7]
            natural_down = (NATURAL[name[0]] - NATURAL[ld]) % 12
            want_down = spell(ld, a - size + natural_down)
            got_down = intervals.from_shorthand(name, sh, False)
            if got_down != want_down:
                fail("from_shorthand(%r, %r, False) = %r, expected %r" % (name, sh, got_down, want_down))
            # up followed by down
            if isinstance(got_up, str):
                back = intervals.from_shorthand(got_up, sh, False)
                if back != name:
                    fail("%r up %r = %r, down again = %r" % (name, sh, got_up, back))
            n += 1
    return n


def check_invert():
    samples = [[], ["C"], ["C", "E"], ["E", "C"], ["C", "E", "G"], ["Cb", "F##", "Cb", "A"]]
    for arg in samples:
        before = list(arg)
        res = intervals.invert(arg)
        want = before[::-1]
        if res != want or not isinstance(res, list):
            fail("invert(%r) = %r, expected %r" % (before, res, want))
        if arg != before:
            fail("invert changed its argument: %r -> %r" % (before, arg))


n_pairs = check_naming()
n_sh = check_shorthand()
check_invert()
print("checked %d in-domain pairs, %d name x shorthand combinations" % (n_pairs, n_sh))

# ---- what the change alters (outside the property's domain) -----------------
print("OBSERVED: from_shorthand('D#####', '3') =", repr(intervals.from_shorthand("D#####", "3")))
up = intervals.from_shorthand("C#######", "3")
print("OBSERVED: 'C#######' up '3' =", repr(up), "then down '3' =", repr(intervals.from_shorthand(up, "3", False)))
print("OBSERVED: from_shorthand('Cbbbbb', '2', False) =", repr(intervals.from_shorthand("Cbbbbb", "2", False)))
print("OBSERVED: from_shorthand('C#b', '1') =", repr(intervals.from_shorthand("C#b", "1")))
print("OBSERVED: module has _SHORTHAND_DEGREES table:", hasattr(intervals, "_SHORTHAND_DEGREES"))

if failures:
    print("FAIL (%d failures)" % len(failures))
    sys.exit(1)
print("PASS")
sys.exit(0)
