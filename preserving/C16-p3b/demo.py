# -*- coding: utf-8 -*-
"""Demo for property C16 (MIDI output is well-formed SMF that denotes exactly
the music written) - change b: the tempo may be any real number of beats per
minute (92.5 works, as it does for the sequencers) and a tempo that can not be
stored is refused with a ValueError before anything is changed.

Part (i) checks the clauses of the property with a small independent SMF
reader written here (expected values come from the file format, arithmetic
and music theory, never from another mingus call).  Part (ii) prints
OBSERVED: lines showing what the change alters: non-integer tempi and tempi
outside what three bytes can hold, which the property does not talk about
(for every integer bpm the original could write, the bytes are the same).

Choose the tree with PYTHONPATH.  Exit status 0 and PASS when all clauses hold.
"""
from __future__ import print_function

import os
import random
import sys
import tempfile

from mingus.containers import Bar, Composition, Note, NoteContainer, Track
from mingus.containers.instrument import MidiInstrument
from mingus.midi import midi_file_out
from mingus.midi.midi_track import MidiTrack

FAILURES = []


def check(cond, msg):
    if not cond:
        FAILURES.append(msg)
    return cond


# ---------------------------------------------------------------- SMF reader
class SMFError(Exception):
    pass


def read_vlq(data, pos, end):
    value = 0
    for i in range(4):
        if pos >= end:
            raise SMFError("variable length quantity runs past the chunk")
        byte = data[pos]
        pos += 1
        value = (value << 7) | (byte & 0x7F)
        if not byte & 0x80:
            return value, pos
    raise SMFError("variable length quantity longer than 4 bytes")


def parse_smf(data):
    """Return (format, declared_tracks, division, [events per track]).

    An event is (tick, kind, payload...).  Strict: raises SMFError for
    anything that is not well formed.  Understands running status.
    """
    if data[:4] != b"MThd":
        raise SMFError("no MThd")
    if int.from_bytes(data[4:8], "big") != 6:
        raise SMFError("header length is not 6")
    fmt = int.from_bytes(data[8:10], "big")
    ntrks = int.from_bytes(data[10:12], "big")
    division = int.from_bytes(data[12:14], "big")
    pos = 14
    tracks = []
    while pos < len(data):
        if data[pos : pos + 4] != b"MTrk":
            raise SMFError("expected MTrk at offset %d" % pos)
        length = int.from_bytes(data[pos + 4 : pos + 8], "big")
        pos += 8
        end = pos + length
        if end > len(data):
            raise SMFError("chunk length runs past the end of the file")
        events = []
        tick = 0
        status = None
        ended = False
        while pos < end:
            if ended:
                raise SMFError("events after end of track")
            delta, pos = read_vlq(data, pos, end)
            tick += delta
            if pos >= end:
                raise SMFError("delta time without event")
            byte = data[pos]
            if byte == 0xFF:
                status = None  # meta events cancel running status
                if pos + 2 > end:
                    raise SMFError("truncated meta event")
                mtype = data[pos + 1]
                if mtype > 0x7F:
                    raise SMFError("bad meta type")
                mlen, p = read_vlq(data, pos + 2, end)
                if p + mlen > end:
                    raise SMFError("meta event runs past the chunk")
                body = data[p : p + mlen]
                pos = p + mlen
                events.append((tick, "meta", mtype, body))
                if mtype == 0x2F:
                    if mlen != 0:
                        raise SMFError("end of track with data")
                    ended = True
            elif byte in (0xF0, 0xF7):
                status = None
                slen, p = read_vlq(data, pos + 1, end)
                if p + slen > end:
                    raise SMFError("sysex runs past the chunk")
                pos = p + slen
                events.append((tick, "sysex"))
            elif byte >= 0xF0:
                raise SMFError("unexpected status 0x%02x" % byte)
            else:
                if byte & 0x80:
                    status = byte
                    pos += 1
                elif status is None:
                    raise SMFError("data byte 0x%02x without running status" % byte)
                nparams = 1 if (status >> 4) in (0xC, 0xD) else 2
                if pos + nparams > end:
                    raise SMFError("truncated channel event")
                params = list(data[pos : pos + nparams])
                if any(p & 0x80 for p in params):
                    raise SMFError("data byte with high bit set")
                pos += nparams
                events.append((tick, "chan", status >> 4, status & 0x0F) + tuple(params))
        if not ended:
            raise SMFError("chunk does not end with end of track")
        if pos != end:
            raise SMFError("chunk length does not match content")
        tracks.append(events)
    return fmt, ntrks, division, tracks


# ------------------------------------------------- first-principles helpers
SEMITONE = {"C": 0, "D": 2, "E": 4, "F": 5, "G": 7, "A": 9, "B": 11}

# sharps (+) / flats (-) of every key signature
MAJOR = {"C": 0, "G": 1, "D": 2, "A": 3, "E": 4, "B": 5, "F#": 6, "C#": 7,
         "F": -1, "Bb": -2, "Eb": -3, "Ab": -4, "Db": -5, "Gb": -6, "Cb": -7}
MINOR = {"a": 0, "e": 1, "b": 2, "f#": 3, "c#": 4, "g#": 5, "d#": 6, "a#": 7,
         "d": -1, "g": -2, "c": -3, "f": -4, "bb": -5, "eb": -6, "ab": -7}
ALL_KEYS = sorted(MAJOR) + sorted(MINOR)
assert len(ALL_KEYS) == 30


def midi_number(name, octave):
    """Scientific pitch: C-4 is middle C = 60."""
    n = SEMITONE[name[0]] + name.count("#") - name.count("b")
    return 12 * (octave + 1) + n


def key_bytes(key):
    if key in MAJOR:
        return MAJOR[key] & 0xFF, 0
    return MINOR[key] & 0xFF, 1


def std_vlq(n):
    out = [n & 0x7F]
    n >>= 7
    while n:
        out.insert(0, (n & 0x7F) | 0x80)
        n >>= 7
    return bytes(out)


# A "spec" describes music independently of mingus:
#   note  = (name, octave, channel, velocity)
#   entry = (value, [notes]) ; an empty list is a rest
#   bar   = (key, (num, den), [entries])
#   track = {"name": str, "program": int or None, "bars": [bars]}
def build_container(notes):
    return NoteContainer([Note(n, o, velocity=v, channel=c) for (n, o, c, v) in notes])


def build_bar(spec):
    key, meter, entries = spec
    bar = Bar(key, meter)
    for value, notes in entries:
        if notes:
            ok = bar.place_notes(build_container(notes), value)
        else:
            ok = bar.place_rest(value)
        assert ok, "demo bug: entry does not fit"
    return bar


def build_track(spec):
    instr = None
    if spec["program"] is not None:
        instr = MidiInstrument()
        instr.instrument_nr = spec["program"]
    track = Track(instr)
    track.name = spec["name"]
    for b in spec["bars"]:
        track.add_bar(build_bar(b))
    return track


def expected_notes(bars, repeat):
    """(ons, offs) as sorted lists of (tick, channel, pitch, velocity)."""
    ons, offs = [], []
    tick = 0
    for _ in range(repeat + 1):
        for _key, _meter, entries in bars:
            for value, notes in entries:
                length = int(round(288.0 / value))
                for (n, o, c, v) in notes:
                    ons.append((tick, c, midi_number(n, o), v))
                    offs.append((tick + length, c, midi_number(n, o), v))
                tick += length
    return sorted(ons), sorted(offs)


def write_and_parse(func, obj, bpm, repeat, label):
    fd, path = tempfile.mkstemp(suffix=".mid")
    os.close(fd)
    try:
        func(path, obj, bpm, repeat)
        with open(path, "rb") as f:
            data = f.read()
    finally:
        os.remove(path)
    try:
        fmt, ntrks, division, tracks = parse_smf(data)
    except SMFError as e:
        check(False, "%s: not well formed: %s" % (label, e))
        return None
    check(fmt == 1, "%s: format %r" % (label, fmt))
    check(division == 72, "%s: division %r" % (label, division))
    check(ntrks == len(tracks), "%s: header says %d tracks, %d chunks" % (label, ntrks, len(tracks)))
    return tracks


def check_notes(events, ons, offs, label):
    got_on = sorted((e[0], e[3], e[4], e[5]) for e in events if e[1] == "chan" and e[2] == 0x9)
    got_off = sorted((e[0], e[3], e[4], e[5]) for e in events if e[1] == "chan" and e[2] == 0x8)
    check(got_on == ons, "%s: note-ons %r, expected %r" % (label, got_on[:6], ons[:6]))
    check(got_off == offs, "%s: note-offs %r, expected %r" % (label, got_off[:6], offs[:6]))
    sounding = set()
    for e in events:
        if e[1] != "chan" or e[2] not in (0x8, 0x9):
            continue
        k = (e[3], e[4])
        if e[2] == 0x9:
            check(k not in sounding, "%s: note %r overlaps itself" % (label, k))
            sounding.add(k)
        else:
            check(k in sounding, "%s: note-off for silent note %r" % (label, k))
            sounding.discard(k)
    check(not sounding, "%s: hanging notes %r" % (label, sorted(sounding)))


def check_tempo(events, bpm, label):
    tempi = [e for e in events if e[1] == "meta" and e[2] == 0x51]
    check(len(tempi) >= 1 and tempi[0][0] == 0, "%s: no tempo at tick 0" % label)
    for e in tempi:
        check(len(e[3]) == 3 and int.from_bytes(e[3], "big") == 60000000 // bpm,
              "%s: tempo %r for %d bpm" % (label, e[3], bpm))


def check_track(events, spec, bpm, repeat, label, with_name=True):
    ons, offs = expected_notes(spec["bars"], repeat)
    check_notes(events, ons, offs, label)
    check_tempo(events, bpm, label)
    if with_name:
        names = [e[3] for e in events if e[1] == "meta" and e[2] == 0x03]
        check(len(names) >= 1 and all(n == spec["name"].encode("ascii") for n in names),
              "%s: track names %r" % (label, names))
    # per bar: time signature (numerator, log2 denominator) and key signature
    exp_ts, exp_ks = [], []
    for _ in range(repeat + 1):
        for key, meter, _entries in spec["bars"]:
            exp_ts.append((meter[0], {1: 0, 2: 1, 4: 2, 8: 3, 16: 4, 32: 5}[meter[1]]))
            exp_ks.append(key_bytes(key))
    got_ts = [(e[3][0], e[3][1]) for e in events if e[1] == "meta" and e[2] == 0x58 and len(e[3]) == 4]
    got_ks = [(e[3][0], e[3][1]) for e in events if e[1] == "meta" and e[2] == 0x59 and len(e[3]) == 2]
    check(got_ts == exp_ts, "%s: time signatures %r expected %r" % (label, got_ts, exp_ts))
    check(got_ks == exp_ks, "%s: key signatures %r expected %r" % (label, got_ks, exp_ks))
    # instrument
    if spec.get("program") is not None and ons:
        first_tick, first_chan = ons[0][0], None
        for e in events:  # channel of the first note-on in the stream
            if e[1] == "chan" and e[2] == 0x9:
                first_chan = e[3]
                break
        first_written = [n for b in spec["bars"] for en in b[2] for n in en[1][:1]][0]
        check(first_chan == first_written[2], "%s: first note channel" % label)
        progs = [e for e in events if e[1] == "chan" and e[2] == 0xC]
        banks = [e for e in events if e[1] == "chan" and e[2] == 0xB and e[4] == 0]
        check(len(progs) >= 1 and all(e[3] == first_chan and e[4] == spec["program"] for e in progs),
              "%s: program changes %r" % (label, progs))
        check(len(banks) >= 1 and all(e[3] == first_chan for e in banks), "%s: bank selects %r" % (label, banks))
        check(progs and progs[0][0] <= first_tick, "%s: program change after the first note" % label)
        # in stream order the first program change precedes the first note-on
        idx_prog = min([i for i, e in enumerate(events) if e[1] == "chan" and e[2] == 0xC] or [10 ** 9])
        idx_on = min(i for i, e in enumerate(events) if e[1] == "chan" and e[2] == 0x9)
        check(idx_prog < idx_on, "%s: program change does not precede the first note" % label)


# ------------------------------------------------------------ random music
VALUES = [1, 2, 4, 8, 16, 32, 3, 6, 12, 5, 7, 10, 64, 4 / 1.5, 8 / 1.5, 2 / 1.5, 9, 11, 24]
METERS = [(4, 4), (3, 4), (2, 4), (6, 8), (5, 4), (7, 8), (2, 2), (12, 8), (9, 8), (3, 8), (6, 4), (1, 4)]
NAMES = ["C", "C#", "Db", "D", "D#", "Eb", "E", "F", "F#", "Gb", "G", "G#", "Ab", "A", "A#", "Bb", "B", "Cb", "E#", "B#", "Fb"]


def random_notes(rng, chan=None, maxn=4):
    notes, used = [], set()
    for _ in range(rng.randint(1, maxn)):
        n, o = rng.choice(NAMES), rng.randint(0, 8)
        p = midi_number(n, o)
        if p in used or not 0 <= p <= 127:
            continue
        used.add(p)
        c = rng.randint(0, 15) if chan is None else chan
        notes.append((n, o, c, rng.choice([0, 1, 64, 100, 127, rng.randint(0, 127)])))
    if not notes:
        notes = [("C", 4, 0 if chan is None else chan, 64)]
    # a NoteContainer keeps its notes sorted from low to high
    notes.sort(key=lambda t: midi_number(t[0], t[1]))
    return notes


def random_bar(rng, key, mode):
    meter = rng.choice(METERS)
    length = meter[0] / float(meter[1])
    entries, beat = [], 0.0
    for _ in range(rng.randint(0, 10)):
        value = rng.choice(VALUES)
        if beat + 1.0 / value > length + 1e-9:
            continue
        if mode == "rests":
            notes = []
        elif mode == "lead" and not entries:
            notes = []
        else:
            same_chan = rng.choice([None, None, rng.randint(0, 15)])
            notes = [] if rng.random() < 0.3 else random_notes(rng, same_chan)
        entries.append((value, notes))
        beat += 1.0 / value
    if mode == "trail" and entries:
        entries[-1] = (entries[-1][0], [])
    return (key, meter, entries)


def random_track(rng, i):
    bars = []
    for _ in range(rng.randint(1, 4)):
        bars.append(random_bar(rng, rng.choice(ALL_KEYS), rng.choice(["any", "any", "lead", "trail", "rests"])))
    return {"name": "Track %d %s" % (i, rng.choice(["", "x", "Lead", "a longer name, with punctuation!"])),
            "program": rng.choice([None, 0, 1, 13, 56, 127]), "bars": bars}


def run_checks():
    rng = random.Random(1616)

    # --- single notes and containers: 72 ticks, repeated end to end
    for i in range(40):
        n, o, c, v = random_notes(rng, maxn=1)[0]
        bpm, repeat = rng.choice([60, 120, 97, 200, 33]), rng.choice([0, 0, 1, 3])
        tracks = write_and_parse(midi_file_out.write_Note, Note(n, o, velocity=v, channel=c), bpm, repeat, "note %d" % i)
        if tracks is None:
            continue
        check(len(tracks) == 1, "note %d: %d tracks" % (i, len(tracks)))
        p = midi_number(n, o)
        ons = sorted((72 * k, c, p, v) for k in range(repeat + 1))
        offs = sorted((72 * (k + 1), c, p, v) for k in range(repeat + 1))
        check_notes(tracks[0], ons, offs, "note %d" % i)
        check_tempo(tracks[0], bpm, "note %d" % i)
    for i in range(60):
        notes = random_notes(rng, rng.choice([None, 3, 9]), maxn=5)
        bpm, repeat = rng.choice([60, 120, 97, 200]), rng.choice([0, 0, 1, 2])
        tracks = write_and_parse(midi_file_out.write_NoteContainer, build_container(notes), bpm, repeat, "container %d" % i)
        if tracks is None:
            continue
        check(len(tracks) == 1, "container %d: %d tracks" % (i, len(tracks)))
        ons = sorted((72 * k, c, midi_number(n, o), v) for k in range(repeat + 1) for (n, o, c, v) in notes)
        offs = sorted((72 * (k + 1), c, midi_number(n, o), v) for k in range(repeat + 1) for (n, o, c, v) in notes)
        check_notes(tracks[0], ons, offs, "container %d" % i)
        check_tempo(tracks[0], bpm, "container %d" % i)

    # --- bars: every key, several modes
    for i, key in enumerate(ALL_KEYS * 3):
        spec = {"name": None, "program": None,
                "bars": [random_bar(rng, key, ["any", "lead", "trail", "rests"][i % 4] if i % 7 else "any")]}
        bpm, repeat = rng.choice([60, 120, 140]), rng.choice([0, 1, 2])
        tracks = write_and_parse(midi_file_out.write_Bar, build_bar(spec["bars"][0]), bpm, repeat, "bar %d" % i)
        if tracks is None:
            continue
        check(len(tracks) == 1, "bar %d: %d tracks" % (i, len(tracks)))
        check_track(tracks[0], spec, bpm, repeat, "bar %d (%s)" % (i, key), with_name=False)

    # --- tracks
    for i in range(80):
        spec = random_track(rng, i)
        bpm, repeat = rng.choice([60, 120, 180, 77]), rng.choice([0, 0, 1, 2])
        tracks = write_and_parse(midi_file_out.write_Track, build_track(spec), bpm, repeat, "track %d" % i)
        if tracks is None:
            continue
        check(len(tracks) == 1, "track %d: %d tracks" % (i, len(tracks)))
        check_track(tracks[0], spec, bpm, repeat, "track %d" % i)

    # --- compositions of 1-4 tracks
    for i in range(40):
        specs = [random_track(rng, k) for k in range(rng.randint(1, 4))]
        comp = Composition()
        for s in specs:
            comp.add_track(build_track(s))
        bpm, repeat = rng.choice([60, 120, 90]), rng.choice([0, 0, 1, 2])
        tracks = write_and_parse(midi_file_out.write_Composition, comp, bpm, repeat, "composition %d" % i)
        if tracks is None:
            continue
        if check(len(tracks) == len(specs), "composition %d: %d chunks for %d tracks" % (i, len(tracks), len(specs))):
            for k, s in enumerate(specs):
                check_track(tracks[k], s, bpm, repeat, "composition %d track %d" % (i, k))

    # --- a systematic one: leading, inner, trailing and whole-bar rests, chord on one channel
    chord = [("C", 4, 5, 90), ("E", 4, 5, 90), ("G", 4, 5, 90), ("Bb", 4, 5, 90)]
    spec = {"name": "Systematic", "program": 42, "bars": [
        ("Eb", (4, 4), [(4, []), (4, chord), (4, []), (4, [("C", 4, 5, 90)])]),
        ("f#", (3, 4), [(2, [])]),
        ("Cb", (6, 8), [(8, chord), (8, chord), (4, [])]),
    ]}
    tracks = write_and_parse(midi_file_out.write_Track, build_track(spec), 120, 1, "systematic")
    if tracks is not None:
        check_track(tracks[0], spec, 120, 1, "systematic")

    # --- tempo: 60000000 div bpm in three bytes, for slow, odd and fast integer tempi
    for bpm in (4, 5, 7, 33, 59, 61, 119, 121, 250, 999, 1000, 7000, 60000000):
        tracks = write_and_parse(midi_file_out.write_Note, Note("A", 4, velocity=64, channel=1), bpm, 0, "tempo %d" % bpm)
        if tracks is not None:
            check_tempo(tracks[0], bpm, "tempo %d" % bpm)
            check_notes(tracks[0], [(0, 1, 69, 64)], [(72, 1, 69, 64)], "tempo %d" % bpm)

    # --- the variable-length encoder
    t = MidiTrack()
    candidates = set(range(0, 40000))
    for b in (1 << 7, 1 << 14, 1 << 21, 1 << 28):
        candidates.update(range(max(0, b - 300), min(b + 300, 1 << 28)))
    candidates.update(rng.randrange(1 << 28) for _ in range(20000))
    bad = [n for n in sorted(candidates) if t.int_to_varbyte(n) != std_vlq(n)]
    check(not bad, "int_to_varbyte differs from the standard encoding for %r" % bad[:5])


# ---------------------------------------------------------------- observed
def observed():
    bar = build_bar(("C", (4, 4), [(4, [("C", 4, 0, 64)])]))
    for bpm in (92.5, 120.0, 3, 0, -60):
        fd, path = tempfile.mkstemp(suffix=".mid")
        os.close(fd)
        try:
            try:
                midi_file_out.write_Bar(path, bar, bpm)
                with open(path, "rb") as f:
                    events = parse_smf(f.read())[3][0]
                tempo = [int.from_bytes(e[3], "big") for e in events if e[1] == "meta" and e[2] == 0x51]
                print("OBSERVED: write_Bar(..., bpm=%r) -> file written, microseconds per quarter note %r" % (bpm, tempo))
            except Exception as e:
                print("OBSERVED: write_Bar(..., bpm=%r) -> %s: %s" % (bpm, type(e).__name__, e))
        finally:
            os.remove(path)
    t = MidiTrack(100)
    before = t.track_data
    try:
        t.set_tempo(2)
        outcome = "accepted"
    except Exception as e:
        outcome = type(e).__name__
    print("OBSERVED: MidiTrack(100).set_tempo(2) -> %s; afterwards bpm attribute = %r, track_data unchanged = %r"
          % (outcome, t.bpm, t.track_data == before))


if __name__ == "__main__":
    run_checks()
    observed()
    if FAILURES:
        for f in FAILURES[:20]:
            print("FAIL:", f)
        print("FAILED (%d problems)" % len(FAILURES))
        sys.exit(1)
    print("PASS")
    sys.exit(0)
