"""Demo for property C09 (note-value analysis inverts construction; meter
predicates are total).  Imports mingus normally: the caller chooses the tree
with PYTHONPATH.  Prints PASS / FAIL for the property and OBSERVED: lines for
the behaviour that the change alters."""
from __future__ import print_function

import math
import sys
from fractions import Fraction as F

import mingus.core.meter as meter
import mingus.core.value as value

failures = []


def check(cond, msg):
    if not cond:
        failures.append(msg)


def close(x, exact, rel=1e-12):
    """x (number from the library) equals the exact rational within rel."""
    return abs(F(x) - exact) <= rel * abs(exact)


# ---------------------------------------------------------------- values
BASES = [F(1, 4), F(1, 2)] + [F(2 ** k) for k in range(8)]  # longa .. 128th
assert len(BASES) == 10
RATIOS = [(3, 2), (5, 4), (7, 4)]
HELPERS = {(3, 2): value.triplet, (5, 4): value.quintuplet, (7, 4): value.septuplet}


def same_parts(result, base, dots, r1, r2):
    """result is the 4 parts (base, dots, ratio) - compared by value."""
    return len(result) == 4 and (
        result[0] == base and result[1] == dots and result[2] == r1 and result[3] == r2
    )


built = []  # (float value, exact value, base, dots, r1, r2)
for b in BASES:
    fb = float(b)
    for d in range(5):
        exact = b * 2 ** d / (2 ** (d + 1) - 1)  # duration 1/b * (2 - 2**-d)
        v = value.dots(fb, d)
        check(close(v, exact), "dots(%r,%d) = %r" % (fb, d, v))
        built.append((v, exact, b, d, 1, 1))
    for (r1, r2) in RATIOS:
        exact = b * r1 / r2
        v = HELPERS[(r1, r2)](fb)
        check(close(v, exact), "tuplet helper %d:%d of %r = %r" % (r1, r2, fb, v))
        # the helpers equal the general ratio formula
        check(close(value.tuplet(fb, r1, r2), exact), "tuplet(%r,%d,%d)" % (fb, r1, r2))
        check(v == value.tuplet(fb, r1, r2), "helper != tuplet for %r %d:%d" % (fb, r1, r2))
        built.append((v, exact, b, 0, r1, r2))
    check(close(value.septuplet(fb, False), b * 7 / 8), "septuplet(%r, False)" % fb)

# analysis inverts construction
for (v, exact, b, d, r1, r2) in built:
    res = value.determine(v)
    check(same_parts(res, b, d, r1, r2), "determine(%r) = %r, built from %r" % (v, res, (b, d, r1, r2)))
# also when the base was given as an int / the value is an int
for n in (1, 2, 4, 8, 16, 32, 64, 128):
    check(same_parts(value.determine(n), n, 0, 1, 1), "determine(int %d)" % n)
    check(same_parts(value.determine(value.dots(n)), n, 1, 1, 1), "determine(dots(int %d))" % n)
    check(same_parts(value.determine(value.triplet(n)), n, 0, 3, 2), "determine(triplet(int %d))" % n)

# within 1% of an undotted or single-dotted recognised value
for (v, exact, b, d, r1, r2) in built:
    if d > 1:
        continue
    for eps in (-0.0099, -0.005, -1e-9, 1e-9, 0.005, 0.0099):
        w = v * (1 + eps)
        res = value.determine(w)
        check(same_parts(res, b, d, r1, r2), "determine(%r) = %r, expected %r" % (w, res, (b, d, r1, r2)))

# add / subtract are reciprocal arithmetic on durations and inverse to each other
vals = [(v, exact) for (v, exact, b, d, r1, r2) in built]
for (x, ex) in vals:
    for (y, ey) in vals:
        s = value.add(x, y)
        check(close(s, 1 / (1 / F(x) + 1 / F(y))), "add(%r,%r) = %r" % (x, y, s))
        check(close(value.subtract(s, y), F(x), 1e-9), "subtract(add(x,y),y) for %r %r" % (x, y))
        check(close(value.subtract(s, x), F(y), 1e-9), "subtract(add(x,y),x) for %r %r" % (x, y))
        if x != y:
            t = value.subtract(x, y)
            check(close(t, 1 / (1 / F(x) - 1 / F(y))), "subtract(%r,%r) = %r" % (x, y, t))
            check(close(value.add(t, y), F(x), 1e-9), "add(subtract(x,y),y) for %r %r" % (x, y))
check(close(value.add(8, 4), F(8, 3)), "add(8,4)")
check(close(value.subtract(4, 8), F(8)), "subtract(4,8)")

# ---------------------------------------------------------------- meters
def pow2(u):
    """u is one of 1, 2, 4, 8, ... (by value), from first principles."""
    if isinstance(u, float):
        if math.isnan(u) or math.isinf(u) or u != math.floor(u):
            return False
        u = int(u)
    if u < 1:
        return False
    while u % 2 == 0:
        u //= 2
    return u == 1


UNITS = list(range(-20, 300)) + [2 ** 40, 2 ** 40 + 1, 3 ** 30, 2 ** 200, 2 ** 200 + 2, -(2 ** 10)]
UNITS += [0.0, -0.0, 0.25, 0.5, 1.0, 1.5, 2.0, 2.5, 3.0, 4.0, 4.000001, 6.0, 8.0, 12.0, 16.0,
          -1.0, -2.0, -4.0, 1e-300, 1e300, 2.0 ** 60, 2.0 ** 60 * 3, float("inf"), float("-inf"), float("nan")]
COUNTS = list(range(-6, 40)) + [300, 301, 303, 10 ** 12 + 3, 10 ** 12 + 2]
for u in UNITS:
    check(meter.valid_beat_duration(u) == pow2(u), "valid_beat_duration(%r)" % (u,))
    for c in COUNTS:
        m = (c, u)
        valid = c > 0 and pow2(u)
        check(bool(meter.is_valid(m)) == valid and meter.is_valid(m) == valid, "is_valid(%r)" % (m,))
        check(meter.is_compound(m) == (valid and c % 3 == 0 and c >= 6), "is_compound(%r)" % (m,))
        check(meter.is_asymmetrical(m) == (valid and c % 2 == 1), "is_asymmetrical(%r)" % (m,))
        meter.is_simple(m)  # must terminate

# ---------------------------------------------------------------- observed
def show(expr):
    try:
        r = eval(expr)
        print("OBSERVED: %s -> %r" % (expr, r))
    except Exception as e:  # noqa
        print("OBSERVED: %s raises %s: %s" % (expr, type(e).__name__, e))


show("value.determine(12)")
show("type(value.determine(12)).__name__")
show("type(value.determine(12)) is tuple")
show("isinstance(value.determine(12), tuple) and value.determine(12) == (8, 0, 3, 2)")
show("value.determine(value.dots(4, 2)).dots")
show("hasattr(value, 'ValueParts')")

if failures:
    print("FAIL (%d)" % len(failures))
    for f in failures[:20]:
        print("  ", f)
    sys.exit(1)
print("PASS")
sys.exit(0)
