# Shared part of the three demo programs (property C16).  It is pasted into
# every demo.py so that each of them is standalone.
from __future__ import print_function

import os
import random
import sys
import tempfile
from collections import Counter

from mingus.containers import Bar, Composition, Note, NoteContainer, Track
from mingus.containers.instrument import MidiInstrument, Piano
from mingus.midi import midi_file_out
from mingus.midi.midi_track import MidiTrack

FAILURES = []


def check(cond, msg):
    if not cond:
        FAILURES.append(msg)
    return cond


# ---------------------------------------------------------------- SMF reader
class SMFError(Exception):
    pass


def read_vlq(data, pos, end):
    value = 0
    for i in range(4):
        if pos >= end:
            raise SMFError("truncated variable-length quantity")
        b = data[pos]
        pos += 1
        value = (value << 7) | (b & 0x7F)
        if not b & 0x80:
            return value, pos
    raise SMFError("variable-length quantity longer than 4 bytes")


def parse_smf(data):
    """Independent reader.  Returns (format, division, [track, ...]) where a
    track is a list of (abs_tick, kind, payload) tuples."""
    data = bytes(data)
    if data[0:4] != b"MThd":
        raise SMFError("no MThd")
    if int.from_bytes(data[4:8], "big") != 6:
        raise SMFError("header length is not 6")
    fmt = int.from_bytes(data[8:10], "big")
    ntrks = int.from_bytes(data[10:12], "big")
    division = int.from_bytes(data[12:14], "big")
    pos = 14
    tracks = []
    while pos < len(data):
        if data[pos:pos + 4] != b"MTrk":
            raise SMFError("no MTrk at byte %d" % pos)
        length = int.from_bytes(data[pos + 4:pos + 8], "big")
        pos += 8
        end = pos + length
        if end > len(data):
            raise SMFError("chunk length runs past the end of the file")
        events = []
        tick = 0
        running = None
        ended = False
        while pos < end:
            if ended:
                raise SMFError("events after end-of-track")
            delta, pos = read_vlq(data, pos, end)
            tick += delta
            if pos >= end:
                raise SMFError("delta time without event")
            status = data[pos]
            if status == 0xFF:
                mtype = data[pos + 1]
                if mtype & 0x80:
                    raise SMFError("bad meta type")
                mlen, p2 = read_vlq(data, pos + 2, end)
                if p2 + mlen > end:
                    raise SMFError("meta event runs past the chunk")
                payload = data[p2:p2 + mlen]
                pos = p2 + mlen
                running = None
                events.append((tick, "meta", (mtype, payload)))
                if mtype == 0x2F:
                    if mlen != 0:
                        raise SMFError("end-of-track with data")
                    ended = True
            elif status in (0xF0, 0xF7):
                mlen, p2 = read_vlq(data, pos + 1, end)
                pos = p2 + mlen
                running = None
                events.append((tick, "sysex", None))
            else:
                if status & 0x80:
                    pos += 1
                    running = status
                else:
                    if running is None:
                        raise SMFError("data byte without running status")
                    status = running
                if status >= 0xF0:
                    raise SMFError("unexpected system message %02x" % status)
                kind = status >> 4
                n = 1 if kind in (0xC, 0xD) else 2
                params = data[pos:pos + n]
                if len(params) != n or pos + n > end:
                    raise SMFError("truncated channel message")
                if any(b & 0x80 for b in params):
                    raise SMFError("data byte with high bit set")
                pos += n
                events.append((tick, "chan", (kind, status & 0x0F) + tuple(params)))
        if pos != end or not ended:
            raise SMFError("chunk does not end in end-of-track")
        tracks.append(events)
    if ntrks != len(tracks):
        raise SMFError("header declares %d tracks, %d chunks follow" % (ntrks, len(tracks)))
    return fmt, division, tracks


# ------------------------------------------------------ expected values
# position on the line of fifths, from music theory
SHARPS = {"Cb": -7, "Gb": -6, "Db": -5, "Ab": -4, "Eb": -3, "Bb": -2, "F": -1, "C": 0,
          "G": 1, "D": 2, "A": 3, "E": 4, "B": 5, "F#": 6, "C#": 7,
          "ab": -7, "eb": -6, "bb": -5, "f": -4, "c": -3, "g": -2, "d": -1, "a": 0,
          "e": 1, "b": 2, "f#": 3, "c#": 4, "g#": 5, "d#": 6, "a#": 7}
ALL_KEYS = sorted(SHARPS)
SEMITONE = {"C": 0, "D": 2, "E": 4, "F": 5, "G": 7, "A": 9, "B": 11}


def midi_number(name, octave):
    """Scientific pitch: C4 = 60."""
    n = SEMITONE[name[0]]
    for acc in name[1:]:
        n += 1 if acc == "#" else -1
    return n + 12 * (octave + 1)


def std_vlq(n):
    out = [n & 0x7F]
    n >>= 7
    while n:
        out.insert(0, (n & 0x7F) | 0x80)
        n >>= 7
    return bytes(out)


def write_and_read(func, obj, *args):
    fd, path = tempfile.mkstemp(suffix=".mid")
    os.close(fd)
    try:
        func(path, obj, *args)
        with open(path, "rb") as f:
            return f.read()
    finally:
        os.remove(path)


# A track is described as (name, instrument_nr or None, [bar, ...]); a bar as
# (key, meter, [(value, None | [(name, octave, channel, velocity), ...]), ...])
def build_bar(desc):
    key, meter, entries = desc
    b = Bar(key, meter)
    for value, notes in entries:
        if notes is None:
            ok = b.place_rest(value)
        else:
            ok = b.place_notes(NoteContainer([Note(n, o, channel=c, velocity=v) for (n, o, c, v) in notes]), value)
        assert ok, "demo built a bar that does not fit: %r" % (desc,)
    return b


def build_track(desc):
    name, instr, bars = desc
    t = Track()
    t.name = name
    if instr == "piano":
        t.instrument = Piano()
    elif instr is not None:
        i = MidiInstrument("Lead")
        i.instrument_nr = instr
        t.instrument = i
    for bd in bars:
        t.add_bar(build_bar(bd))
    return t


def expected_notes(bars, repeat):
    ons, offs = Counter(), Counter()
    tick = 0
    first_channel = None
    for _ in range(repeat + 1):
        for key, meter, entries in bars:
            for value, notes in entries:
                length = int(round(288.0 / value))
                if notes:
                    for (n, o, c, v) in notes:
                        if first_channel is None:
                            first_channel = min(notes, key=lambda x: midi_number(x[0], x[1]))[2]
                        ons[(tick, c, midi_number(n, o), v)] += 1
                        offs[(tick + length, c, midi_number(n, o), v)] += 1
                tick += length
    return ons, offs, first_channel


def check_track(label, events, desc, bpm, repeat):
    name, instr, bars = desc
    ons, offs, first_channel = expected_notes(bars, repeat)
    got_on = Counter((t, p[1], p[2], p[3]) for (t, k, p) in events if k == "chan" and p[0] == 9)
    got_off = Counter((t, p[1], p[2], p[3]) for (t, k, p) in events if k == "chan" and p[0] == 8)
    check(got_on == ons, "%s: note-ons differ: %r vs %r" % (label, sorted(got_on.items())[:6], sorted(ons.items())[:6]))
    check(got_off == offs, "%s: note-offs differ" % label)
    # nothing hangs, nothing overlaps itself
    sounding = {}
    for (t, k, p) in events:
        if k == "chan" and p[0] == 9:
            check(not sounding.get((p[1], p[2])), "%s: note %r restruck while sounding" % (label, p))
            sounding[(p[1], p[2])] = True
        elif k == "chan" and p[0] == 8:
            check(sounding.get((p[1], p[2])), "%s: note-off without note-on %r" % (label, p))
            sounding[(p[1], p[2])] = False
    check(not any(sounding.values()), "%s: hanging notes" % label)
    # tempo
    tempi = [int.from_bytes(p[1], "big") for (t, k, p) in events if k == "meta" and p[0] == 0x51]
    check(len(tempi) >= 1 and all(x == 60000000 // bpm for x in tempi) and
          all(len(p[1]) == 3 for (t, k, p) in events if k == "meta" and p[0] == 0x51),
          "%s: tempo %r" % (label, tempi))
    check(events[0][0] == 0 and events[0][1] == "meta" and events[0][2][0] == 0x51, "%s: tempo is not first" % label)
    # track name
    if name is not None:
        names = [p[1] for (t, k, p) in events if k == "meta" and p[0] == 0x03]
        check(len(names) >= 1 and all(x == name.encode("ascii") for x in names), "%s: track name %r" % (label, names))
    # instrument
    if isinstance(instr, int) and first_channel is not None:
        first_on = min(i for i, (t, k, p) in enumerate(events) if k == "chan" and p[0] == 9)
        before = [p for (t, k, p) in events[:first_on] if k == "chan"]
        banks = [p for p in before if p[0] == 0xB and p[2] == 0]
        progs = [p for p in before if p[0] == 0xC]
        check(len(banks) == 1 and banks[0][1] == first_channel, "%s: bank select %r" % (label, banks))
        check(len(progs) == 1 and progs[0][1] == first_channel and progs[0][2] == instr,
              "%s: program change %r" % (label, progs))
        check(before.index(banks[0]) < before.index(progs[0]) if banks and progs else False,
              "%s: bank select after program change" % label)
    # per bar: time signature and key signature
    want_ts = [tuple(m) for (k_, m, e_) in bars] * (repeat + 1)
    got_ts = [(p[1][0], 2 ** p[1][1]) for (t, k, p) in events if k == "meta" and p[0] == 0x58]
    check(all(len(p[1]) == 4 for (t, k, p) in events if k == "meta" and p[0] == 0x58), "%s: time signature length" % label)
    check(got_ts == want_ts, "%s: time signatures %r vs %r" % (label, got_ts, want_ts))
    want_ks = [(SHARPS[k_], 1 if k_.islower() else 0) for (k_, m_, e_) in bars] * (repeat + 1)
    got_ks = [((p[1][0] + 128) % 256 - 128, p[1][1]) for (t, k, p) in events if k == "meta" and p[0] == 0x59]
    check(all(len(p[1]) == 2 for (t, k, p) in events if k == "meta" and p[0] == 0x59), "%s: key signature length" % label)
    check(got_ks == want_ks, "%s: key signatures %r vs %r" % (label, got_ks, want_ks))


def parse_checked(label, data, ntracks):
    try:
        fmt, division, tracks = parse_smf(data)
    except (SMFError, IndexError) as e:
        check(False, "%s: not well-formed: %s" % (label, e))
        return None
    check(fmt == 1, "%s: format %d" % (label, fmt))
    check(division == 72, "%s: division %d" % (label, division))
    check(len(tracks) == ntracks, "%s: %d tracks" % (label, len(tracks)))
    return tracks


VALUES = [1, 2, 4, 8, 16, 32, 3, 6, 12, 24, 5, 7, 10, 1.5, 8.0 / 3, 16.0 / 3]   # the last three: dotted values
METERS = [(4, 4), (3, 4), (2, 4), (6, 8), (2, 2), (5, 4), (7, 8), (12, 8), (3, 8), (9, 8), (3, 2)]
NAMES = ["C", "C#", "D", "Eb", "E", "F", "F#", "G", "Ab", "A", "Bb", "B", "Db", "G#"]


def random_entries(rng, meter):
    room = meter[0] / float(meter[1])
    entries = []
    used = 0.0
    for _ in range(rng.randint(1, 8)):
        fits = [v for v in VALUES if used + 1.0 / v <= room + 1e-9]
        if not fits:
            break
        v = rng.choice(fits)
        if rng.random() < 0.3:
            notes = None
        else:
            ch = rng.randint(0, 15)
            pitches = {}
            for _ in range(rng.choice([1, 1, 2, 3, 4])):
                n, o = rng.choice(NAMES), rng.randint(0, 8)
                pitches[midi_number(n, o)] = (n, o, ch if rng.random() < 0.7 else rng.randint(0, 15), rng.randint(0, 127))
            notes = list(pitches.values())
        entries.append((v, notes))
        used += 1.0 / v
    return entries


def random_track(rng, i):
    bars = []
    for _ in range(rng.randint(1, 4)):
        meter = rng.choice(METERS)
        bars.append((rng.choice(ALL_KEYS), meter, random_entries(rng, meter)))
    instr = rng.choice([None, None, "piano", rng.randint(0, 127), rng.randint(0, 127)])
    return ("Track %d" % i, instr, bars)


def run_property_checks():
    rng = random.Random(16)
    # variable-length encoder
    t = MidiTrack()
    probe = set(range(0, 70000))
    for b in (1 << 7, 1 << 14, 1 << 21, 1 << 28):
        probe.update(range(max(0, b - 300), min(b + 300, 1 << 28)))
    for n in sorted(probe):
        if bytes(t.int_to_varbyte(n)) != std_vlq(n):
            check(False, "VLQ of %d" % n)
            break
    # single notes and containers, with repeats
    for repeat in (0, 1, 3):
        for (n, o, c, v) in [("C", 4, 0, 64), ("F#", 0, 15, 0), ("Bb", 8, 9, 127), ("C", 0, 3, 1)]:
            data = write_and_read(midi_file_out.write_Note, Note(n, o, channel=c, velocity=v), 120, repeat)
            tr = parse_checked("note", data, 1)
            if tr:
                ev = [(tk, p) for (tk, k, p) in tr[0] if k == "chan"]
                want = []
                for r in range(repeat + 1):
                    want += [(72 * r, (9, c, midi_number(n, o), v)), (72 * r + 72, (8, c, midi_number(n, o), v))]
                check(ev == want, "write_Note %r repeat %d: %r" % ((n, o, c, v), repeat, ev))
        chord = [("C", 4, 1, 90), ("E", 4, 1, 80), ("G", 4, 2, 70)]
        nc = NoteContainer([Note(n, o, channel=c, velocity=v) for (n, o, c, v) in chord])
        data = write_and_read(midi_file_out.write_NoteContainer, nc, 90, repeat)
        tr = parse_checked("container", data, 1)
        if tr:
            on = Counter((tk, p) for (tk, k, p) in tr[0] if k == "chan" and p[0] == 9)
            off = Counter((tk, p) for (tk, k, p) in tr[0] if k == "chan" and p[0] == 8)
            w_on, w_off = Counter(), Counter()
            for r in range(repeat + 1):
                for (n, o, c, v) in chord:
                    w_on[(72 * r, (9, c, midi_number(n, o), v))] += 1
                    w_off[(72 * r + 72, (8, c, midi_number(n, o), v))] += 1
            check(on == w_on and off == w_off, "write_NoteContainer repeat %d" % repeat)
            tempi = [int.from_bytes(p[1], "big") for (tk, k, p) in tr[0] if k == "meta" and p[0] == 0x51]
            check(tempi and all(x == 60000000 // 90 for x in tempi), "container tempo")
    # systematic bars: every key, every meter, rests in every position
    for key in ALL_KEYS:
        for meter in METERS:
            v = meter[1]
            note = [("A", 3, rng.randint(0, 15), rng.randint(0, 127))]
            patterns = [[(v, note)] * meter[0], [(v, None)] * meter[0],
                        [(v, None)] + [(v, note)] * (meter[0] - 1), [(v, note)] * (meter[0] - 1) + [(v, None)],
                        [(v, note), (v, None)], [(v * 2, note), (v * 2, None), (v * 2, note)]]
            desc = (None, None, [(key, meter, rng.choice(patterns))])
            repeat = rng.choice([0, 0, 1, 2])
            data = write_and_read(midi_file_out.write_Bar, build_bar(desc[2][0]), 120, repeat)
            tr = parse_checked("bar %s %r" % (key, meter), data, 1)
            if tr:
                check_track("bar %s %r" % (key, meter), tr[0], desc, 120, repeat)
    # every value
    for v in VALUES:
        desc = (None, None, [("C", (4, 4), [(v, None), (v, [("C", 4, 0, 100), ("G", 4, 0, 100)]), (v, [("D", 5, 5, 1)])])])
        if 3.0 / v > 1:
            desc = (None, None, [("C", (4, 4), [(v, [("C", 4, 0, 100)])])])
        data = write_and_read(midi_file_out.write_Bar, build_bar(desc[2][0]), 100, 1)
        tr = parse_checked("value %r" % v, data, 1)
        if tr:
            check_track("value %r" % v, tr[0], desc, 100, 1)
    # random tracks and compositions
    for case in range(120):
        bpm = rng.choice([40, 60, 90, 100, 120, 133, 200, 7])
        repeat = rng.choice([0, 0, 1, 2, 3])
        ntr = rng.randint(1, 4)
        descs = [random_track(rng, i) for i in range(ntr)]
        if case % 3 == 0:
            data = write_and_read(midi_file_out.write_Track, build_track(descs[0]), bpm, repeat)
            descs = descs[:1]
        else:
            c = Composition()
            for d in descs:
                c.add_track(build_track(d))
            data = write_and_read(midi_file_out.write_Composition, c, bpm, repeat)
        tr = parse_checked("case %d" % case, data, len(descs))
        if tr:
            for i, d in enumerate(descs):
                check_track("case %d track %d" % (case, i), tr[i], d, bpm, repeat)


def finish():
    if FAILURES:
        for f in FAILURES[:20]:
            print("FAIL:", f)
        print("FAILED (%d)" % len(FAILURES))
        sys.exit(1)
    print("PASS")
    sys.exit(0)


def observed():
    # the third data byte of the time signature meta event: MIDI clocks per
    # metronome click (the property only talks about numerator / denominator)
    for meter in [(4, 4), (6, 8), (2, 2), (3, 8), (7, 16)]:
        b = Bar("C", meter)
        b.place_notes("C-4", meter[1])
        data = write_and_read(midi_file_out.write_Bar, b)
        fmt, division, tracks = parse_smf(data)
        ts = [p[1] for (tk, k, p) in tracks[0] if k == "meta" and p[0] == 0x58][0]
        print("OBSERVED: meter %d/%d -> time signature data %s (numerator %d, denominator 2^%d, "
              "clocks per metronome click %d, 32nds per quarter %d)"
              % (meter[0], meter[1], ts.hex(), ts[0], ts[1], ts[2], ts[3]))
    print("OBSERVED: MidiTrack().time_signature_event((6, 8)) = %r" % bytes(MidiTrack().time_signature_event((6, 8))))


if __name__ == "__main__":
    run_property_checks()
    observed()
    finish()
