#!/usr/bin/env python
"""Demo for property C15 (no hidden shared state).

Part (i): checks the clauses of the property on a sample of inputs; the
expected values are written down from music theory / arithmetic / the MIDI
file format, never taken from another mingus call.  Prints PASS and exits 0
when all hold, prints the failures and exits 1 otherwise.

Part (ii): prints OBSERVED: lines showing behaviour the property does not pin
down (these differ between the unchanged tree and the changed tree).
"""
from __future__ import print_function

import copy
import random
import sys
import warnings

warnings.simplefilter("ignore")

from mingus.core import keys, chords, progressions, intervals, notes
from mingus.containers import Note, NoteContainer, Bar, Track, Composition, Suite
from mingus.midi.midi_file_out import MidiFile
from mingus.midi.midi_track import MidiTrack
from mingus.midi.sequencer import Sequencer
from mingus.extra import fft

FAILS = []


def check(cond, what):
    if not cond:
        FAILS.append(what)


# --------------------------------------------------------------------------
# Clause 1: theory queries give the same value whatever was called before.
# Expected values from music theory.
BATTERY = [
    (lambda: keys.get_notes("C"), ["C", "D", "E", "F", "G", "A", "B"]),
    (lambda: keys.get_notes("F"), ["F", "G", "A", "Bb", "C", "D", "E"]),
    (lambda: keys.get_notes("c"), ["C", "D", "Eb", "F", "G", "Ab", "Bb"]),
    (lambda: keys.get_notes("E"), ["E", "F#", "G#", "A", "B", "C#", "D#"]),
    (lambda: keys.get_key_signature("Eb"), -3),
    (lambda: keys.get_key_signature_accidentals("D"), ["F#", "C#"]),
    (lambda: keys.get_key_signature_accidentals("Bb"), ["Bb", "Eb"]),
    (lambda: keys.get_key(2), ("D", "b")),
    (lambda: keys.relative_minor("G"), "e"),
    (
        lambda: chords.triads("C"),
        [
            ["C", "E", "G"],
            ["D", "F", "A"],
            ["E", "G", "B"],
            ["F", "A", "C"],
            ["G", "B", "D"],
            ["A", "C", "E"],
            ["B", "D", "F"],
        ],
    ),
    (lambda: chords.triads("G")[4], ["D", "F#", "A"]),
    (lambda: chords.sevenths("C")[0], ["C", "E", "G", "B"]),
    (lambda: chords.sevenths("F")[4], ["C", "E", "G", "Bb"]),
    (lambda: chords.triad("E", "B"), ["E", "G#", "B"]),
    (lambda: chords.dominant7("C"), ["G", "B", "D", "F"]),
    (lambda: chords.from_shorthand("Am7"), ["A", "C", "E", "G"]),
    (lambda: chords.major_triad("Eb"), ["Eb", "G", "Bb"]),
    (lambda: chords.first_inversion(["C", "E", "G"]), ["E", "G", "C"]),
    (lambda: chords.determine(["C", "E", "G"], True), ["CM"]),
    (lambda: progressions.to_chords(["I", "V7"], "C"), [["C", "E", "G"], ["G", "B", "D", "F"]]),
    # bII: every note of the triad on the second degree (D F A) lowered a semitone
    (lambda: progressions.to_chords("bII", "C"), [["Db", "Fb", "Ab"]]),
    (lambda: progressions.substitute_harmonic(["I"], 0), ["III", "VI"]),
    (lambda: progressions.skip("VII"), "I"),
    (lambda: intervals.third("E", "C"), "G"),
    (lambda: intervals.fifth("B", "C"), "F"),
    (lambda: intervals.interval("D", "F#", 2), "A"),
    (lambda: intervals.major_third("C"), "E"),
    (lambda: intervals.minor_seventh("D"), "C"),
    (lambda: intervals.determine("C", "G"), "perfect fifth"),
    (lambda: intervals.from_shorthand("A", "b3"), "C"),
    (lambda: intervals.measure("C", "A"), 9),
]


def run_battery(tag):
    for i, (q, expected) in enumerate(BATTERY):
        got = q()
        check(got == expected, "battery[%d] %s: got %r expected %r" % (i, tag, got, expected))


def random_history(rng, n):
    ks = keys.major_keys + keys.minor_keys
    nts = ["C", "D", "E", "F", "G", "A", "B", "F#", "Bb", "Eb", "C#"]
    for _ in range(n):
        k = rng.choice(ks)
        nt = rng.choice(nts)
        c = rng.randrange(10)
        if c == 0:
            keys.get_notes(k)
        elif c == 1:
            chords.triads(k)
        elif c == 2:
            chords.sevenths(k)
        elif c == 3:
            progressions.to_chords(rng.choice(["I", "IV7", "bVI", "V", "iidim7"]), k)
        elif c == 4:
            intervals.sixth(keys.get_notes(k)[rng.randrange(7)], k)
        elif c == 5:
            chords.from_shorthand(nt + rng.choice(["", "m", "7", "M7", "dim", "sus4"]))
        elif c == 6:
            chords.determine(chords.minor_triad(nt))
        elif c == 7:
            intervals.determine(nt, rng.choice(nts))
        elif c == 8:
            keys.get_key_signature_accidentals(k)
        else:
            chords.dominant7(k)


def clause_history_independence():
    run_battery("first calls of this process")
    run_battery("second time")
    rng = random.Random(15)
    for rnd in range(5):
        random_history(rng, 60)
        run_battery("after random history %d" % rnd)
    # reversed order of the battery
    for i, (q, expected) in reversed(list(enumerate(BATTERY))):
        check(q() == expected, "battery[%d] in reversed order" % i)


# --------------------------------------------------------------------------
# Clause 2: no call modifies the lists / dicts passed to it.
def clause_arguments_untouched():
    cases = [
        ("progressions.to_chords", lambda a: progressions.to_chords(a, "C"), ["I", "IV", "V7"]),
        ("progressions.substitute", lambda a: progressions.substitute(a, 0, 1), ["I", "IV", "V", "I"]),
        ("progressions.substitute_harmonic", lambda a: progressions.substitute_harmonic(a, 1), ["I", "IV"]),
        ("progressions.determine", lambda a: progressions.determine(a, "C"), ["C", "E", "G"]),
        ("chords.determine", lambda a: chords.determine(a), ["C", "E", "G", "B"]),
        ("chords.determine 5", lambda a: chords.determine(a), ["C", "E", "G", "B", "D"]),
        ("chords.invert", lambda a: chords.invert(a), ["C", "E", "G"]),
        ("chords.third_inversion", lambda a: chords.third_inversion(a), ["C", "E", "G", "B"]),
        ("chords.from_shorthand(list)", lambda a: chords.from_shorthand(a), ["Am", "C7"]),
        ("NoteContainer(list)", lambda a: NoteContainer(a), ["G", "C", "E"]),
        ("NoteContainer(list of lists)", lambda a: NoteContainer(a), [["C", 5], ["E", 5, {"velocity": 20}]]),
        ("NoteContainer.add_notes", lambda a: NoteContainer().add_notes(a), ["C", "E"]),
        ("NoteContainer.remove_notes", lambda a: NoteContainer(["C", "E", "G"]).remove_notes(a), ["C", "E"]),
        ("Bar.place_notes", lambda a: Bar().place_notes(a, 4), ["C", "E", "G"]),
        ("Track.from_chords", lambda a: Track().from_chords(a), ["C", ["Am", "Dm"], "G7"]),
        ("Note(dynamics)", lambda a: Note("C", 4, a), {"velocity": 90}),
        ("Note.set_note(dynamics)", lambda a: Note().set_note("D", 3, a), {"channel": 3}),
        ("NoteContainer.add_note(dynamics)", lambda a: NoteContainer().add_note("C", 4, a), {"velocity": 10}),
        ("fft.find_notes", lambda a: fft.find_notes(a), [(440.0, 1.0), (445.0, 2.0), (100.0, 0.5)]),
        ("fft.find_frequencies", lambda a: fft.find_frequencies(a, 8, 16), [0, 1, 0, -1, 0, 1, 0, -1]),
    ]
    for name, f, arg in cases:
        before = copy.deepcopy(arg)
        f(arg)
        check(arg == before, "%s modified its argument: %r -> %r" % (name, before, arg))


# --------------------------------------------------------------------------
# Clause 3: modifying a returned list never changes a later result.
def clause_results_not_shared():
    for rnd in range(2):
        r = keys.get_notes("G")
        check(r == ["G", "A", "B", "C", "D", "E", "F#"], "get_notes('G') round %d: %r" % (rnd, r))
        r[0] = "X"
        r.append("Y")
        del r[1]

        r = keys.get_key_signature_accidentals("A")
        check(r == ["F#", "C#", "G#"], "get_key_signature_accidentals('A') round %d: %r" % (rnd, r))
        r.reverse()

        r = chords.triads("F")
        check(r[0] == ["F", "A", "C"] and r[6] == ["E", "G", "Bb"] and len(r) == 7, "triads('F') round %d: %r" % (rnd, r))
        r[0][0] = "X"  # inner list
        r[6].append("Y")
        r.pop()  # outer list

        r = chords.sevenths("D")
        check(r[0] == ["D", "F#", "A", "C#"] and len(r) == 7, "sevenths('D') round %d: %r" % (rnd, r))
        r[0].reverse()
        del r[:]

        r = chords.tonic("F")
        check(r == ["F", "A", "C"], "tonic('F') round %d: %r" % (rnd, r))
        r[1] = "X"
        r = chords.tonic7("D")
        check(r == ["D", "F#", "A", "C#"], "tonic7('D') round %d: %r" % (rnd, r))
        r[1] = "X"

        r = progressions.to_chords(["I", "IV"], "F")
        check(r == [["F", "A", "C"], ["Bb", "D", "F"]], "to_chords F round %d: %r" % (rnd, r))
        r[0][1] = "X"
        r.append(1)

        r = chords.from_shorthand("G7")
        check(r == ["G", "B", "D", "F"], "from_shorthand('G7') round %d: %r" % (rnd, r))
        r.sort()

        r = progressions.substitute_harmonic(["IV"], 0)
        check(r == ["II", "VI"], "substitute_harmonic IV round %d: %r" % (rnd, r))
        r.append("zz")

    # interval uses the note list of the key internally
    check(intervals.third("F", "F") == "A" and intervals.seventh("G", "G") == "F#", "intervals after mutated results")
    # module level tables are what theory says they are
    check(keys.major_keys[7] == "C" and keys.minor_keys[7] == "a" and len(keys.keys) == 15, "keys tables")
    check(keys.base_scale == ["C", "D", "E", "F", "G", "A", "B"], "base_scale changed")
    check(list(notes.fifths) == ["F", "C", "G", "D", "A", "E", "B"], "fifths changed")


# --------------------------------------------------------------------------
# Clause 4: sibling instances (and class defaults) are independent.
class _Listener(object):
    def notify(self, msg_type, params):
        pass


def _class_defaults():
    res = {}
    for cls in (Note, NoteContainer, Bar, Track, Composition, Suite, MidiFile, MidiTrack, Sequencer):
        for name, val in vars(cls).items():
            if name.startswith("__") or callable(val) or isinstance(val, (property, staticmethod, classmethod)):
                continue
            res[(cls.__name__, name)] = copy.deepcopy(val)
    return res


TEMPO_120 = b"\x00\xff\x51\x03\x07\xa1\x20"  # 60e6/120 = 500000 = 0x07a120 us per quarter


def clause_siblings():
    defaults_before = _class_defaults()

    # NoteContainer
    a, b = NoteContainer(), NoteContainer()
    a.add_notes(["C", "E", "G"])
    a + "B"
    check(len(b) == 0 and b.notes == [], "NoteContainer sibling got notes: %r" % b)
    b.add_note("D")
    check([n.name for n in a.notes] == ["C", "E", "G", "B"], "NoteContainer a changed by b")
    a.empty()
    check([n.name for n in b.notes] == ["D"], "NoteContainer b changed by a.empty()")

    # Bar
    a, b = Bar(), Bar()
    a.place_notes("C", 4)
    a + ["E", "G"]
    a.set_meter((3, 4))
    check(len(b) == 0 and b.current_beat == 0.0 and b.meter == (4, 4) and b.length == 1.0, "Bar sibling changed: %r" % b)
    b.place_rest(2)
    check(len(a) == 2 and a.current_beat == 0.5, "Bar a changed by b")

    # Track
    a, b = Track(), Track()
    a.add_notes("C", 4)
    a.add_bar(Bar("G"))
    a.name = "first"
    check(len(b) == 0 and b.bars == [] and b.name == "Untitled" and b.instrument is None, "Track sibling changed")
    b + "E"
    check(len(a) == 2 and len(a[0]) == 1, "Track a changed by b")

    # Composition
    a, b = Composition(), Composition()
    a.add_track(Track())
    a + "C"
    a.set_title("T", "S")
    a.set_author("me", "me@x")
    check(
        len(b) == 0 and list(b.selected_tracks) == [] and b.title == "Untitled" and b.author == "" and b.subtitle == "",
        "Composition sibling changed",
    )
    b.add_track(Track())
    b.add_track(Track())
    check(len(a) == 1 and a.selected_tracks == [0] and len(a[0]) == 1, "Composition a changed by b")

    # Suite
    a, b = Suite(), Suite()
    a.add_composition(Composition())
    a.set_title("T")
    a.set_author("me")
    check(len(b) == 0 and b.title == "Untitled" and b.author == "", "Suite sibling changed")
    b + Composition()
    b + Composition()
    check(len(a) == 1, "Suite a changed by b")

    # Note
    a, b = Note(), Note()
    a.set_note("D", 5, {"velocity": 100, "channel": 9})
    a.augment()
    check((b.name, b.octave, b.velocity, b.channel) == ("C", 4, 64, 1), "Note sibling changed: %r" % b)

    # MidiTrack
    a, b = MidiTrack(), MidiTrack()
    check(a.track_data == TEMPO_120 and b.track_data == TEMPO_120, "fresh MidiTrack data: %r" % a.track_data)
    a.set_deltatime(0x48)
    a.play_Note(Note("C", 4))
    a.play_Bar(Bar("G", (3, 4)))
    a.instrument = 7
    a.change_instrument = True
    check(
        b.track_data == TEMPO_120 and b.delta_time == b"\x00" and b.delay == 0 and b.instrument == 1 and not b.change_instrument,
        "MidiTrack sibling changed: %r" % b.track_data,
    )
    # note on: delta 0x48, status 0x91 (channel 1), key 60 (C-4 is int 48, +12), velocity 64
    check(a.track_data[len(TEMPO_120) : len(TEMPO_120) + 4] == b"\x48\x91\x3c\x40", "note on bytes: %r" % a.track_data)

    # MidiFile
    a, b = MidiFile(), MidiFile()
    a.tracks.append(MidiTrack())
    a.time_division = b"\x00\x60"
    check(len(b.tracks) == 0 and b.time_division == b"\x00\x48", "MidiFile sibling changed")
    check(b.get_midi_data() == b"MThd\x00\x00\x00\x06\x00\x01\x00\x00\x00\x48", "empty MidiFile data: %r" % b.get_midi_data())
    b.tracks.append(MidiTrack())
    b.tracks.append(MidiTrack())
    check(len(a.tracks) == 1, "MidiFile a changed by b")
    check(a.header() == b"MThd\x00\x00\x00\x06\x00\x01\x00\x01\x00\x60", "MidiFile header: %r" % a.header())

    # Sequencer
    a, b = Sequencer(), Sequencer()
    a.attach(_Listener())
    check(len(b.listeners) == 0, "Sequencer sibling got a listener")
    b.attach(_Listener())
    b.attach(_Listener())
    check(len(a.listeners) == 1, "Sequencer a changed by b")

    defaults_after = _class_defaults()
    check(defaults_after == defaults_before, "class defaults changed")
    # objects created afterwards still start out empty / default
    check(len(NoteContainer()) == 0 and len(Bar()) == 0 and len(Track()) == 0, "new containers not empty")
    check(len(Composition()) == 0 and len(Suite()) == 0 and len(MidiFile().tracks) == 0, "new containers not empty (2)")
    check(MidiTrack().track_data == TEMPO_120 and len(Sequencer().listeners) == 0, "new midi objects not default")
    n = Note()
    check((n.name, n.octave, n.velocity, n.channel) == ("C", 4, 64, 1), "new Note not default")


# --------------------------------------------------------------------------
# Clause 5: copies are independent of their source.
def clause_copies():
    src = Note("E", 3, velocity=80, channel=2)
    cp = Note(src)
    check((cp.name, cp.octave, cp.velocity, cp.channel) == ("E", 3, 80, 2), "Note copy wrong: %r" % cp)
    cp.transpose("3")  # major third above E-3 is G#-3
    cp.set_velocity(10)
    check((src.name, src.octave, src.velocity) == ("E", 3, 80), "Note source changed by copy")
    check((cp.name, cp.octave, cp.velocity) == ("G#", 3, 10), "Note copy after transpose: %r" % cp)
    src.octave_up()
    src.set_channel(5)
    check((cp.octave, cp.channel) == (3, 2), "Note copy changed by source")

    src = NoteContainer(["C", "E", "G"])
    cp = NoteContainer(src)
    check([(n.name, n.octave) for n in cp] == [("C", 4), ("E", 4), ("G", 4)], "NoteContainer copy wrong")
    cp.transpose("5")  # fifths above: G-4 B-4 D-5
    cp.add_note("A", 5)
    check([(n.name, n.octave) for n in src] == [("C", 4), ("E", 4), ("G", 4)], "NoteContainer source changed: %r" % src)
    check([(n.name, n.octave) for n in cp] == [("G", 4), ("B", 4), ("D", 5), ("A", 5)], "NoteContainer copy: %r" % cp)
    src.augment()
    src.remove_note("E#")
    check(len(cp) == 4 and cp[0].name == "G", "NoteContainer copy changed by source")
    other = NoteContainer()
    other.add_notes(src)
    other[0].octave_down()
    check(src[0].octave == 4, "add_notes(container) shares notes")


# --------------------------------------------------------------------------
# Clause 6: frequency -> note index lookups do not depend on earlier lookups.
def _expected_index(f):
    # note n sounds at 440 * 2 ** ((n - 57) / 12) Hz (A-4 = 57 = 440 Hz);
    # the index is the lowest n whose frequency is not below f; 128 = out of range
    if f <= 0:
        return 128
    for n in range(128):
        if f <= 440.0 * 2 ** ((n - 57) / 12.0):
            return n
    return 128


def clause_fft_lookup():
    rng = random.Random(7)
    sample = [8.0, 8.5, 16.3, 27.5, 100.0, 261.0, 262.0, 430.0, 440.0, 441.0, 466.0, 880.0, 3000.0, 12000.0, 12543.0, 13000.0, 0, -5.0, 1e6]
    sample += [rng.uniform(1, 13000) for _ in range(300)]
    expected = dict((f, _expected_index(f)) for f in sample)
    check(expected[440.0] == 57 and expected[441.0] == 58 and expected[430.0] == 57, "sanity of the arithmetic")
    orders = [sorted(sample), sorted(sample, reverse=True)]
    for _ in range(4):
        s = list(sample)
        rng.shuffle(s)
        orders.append(s)
    for order in orders:
        for f in order:
            got = fft._find_log_index(f)
            check(got == expected[f], "_find_log_index(%r) = %r, expected %r" % (f, got, expected[f]))
    # each one directly after each of a few others
    few = [8.0, 27.5, 440.0, 441.0, 3000.0, 12543.0, 13000.0, 0]
    for first in few:
        for second in few:
            fft._find_log_index(first)
            got = fft._find_log_index(second)
            check(got == expected[second], "_find_log_index(%r) after %r = %r" % (second, first, got))
    # find_notes: 440 Hz and 445 Hz -> amplitudes land on A-4 (57) and A#-4 (58), whatever came before
    for warmup in (1.0, 12000.0, 440.0):
        fft._find_log_index(warmup)
        res = fft.find_notes([(440.0, 1.0), (445.0, 2.0)])
        check(len(res) == 129 and res[57][1] == 1.0 and res[58][1] == 2.0, "find_notes after %r" % warmup)
        check((res[57][0].name, res[57][0].octave) == ("A", 4) and res[128][0] is None, "find_notes notes")


# --------------------------------------------------------------------------
# Clauses 1+3 on a cold table: the very first result of a query is mutated,
# the second (warm) call must still give the value theory prescribes.
def clause_first_call_results():
    r = keys.get_notes("B")
    check(r == ["B", "C#", "D#", "E", "F#", "G#", "A#"], "cold get_notes('B'): %r" % r)
    r[0] = "X"
    r.append("Y")
    r = keys.get_notes("B")
    check(r == ["B", "C#", "D#", "E", "F#", "G#", "A#"], "warm get_notes('B') after mutation: %r" % r)

    r = chords.triads("Ab")
    check(r[0] == ["Ab", "C", "Eb"] and r[1] == ["Bb", "Db", "F"] and len(r) == 7, "cold triads('Ab'): %r" % r)
    r[0][0] = "X"
    r[1].append("Y")
    r.pop()
    r = chords.triads("Ab")
    check(r[0] == ["Ab", "C", "Eb"] and r[1] == ["Bb", "Db", "F"] and len(r) == 7, "warm triads('Ab') after mutation: %r" % r)
    check(keys.get_notes("Ab") == ["Ab", "Bb", "C", "Db", "Eb", "F", "G"], "get_notes('Ab') after triads")

    r = chords.sevenths("f#")
    check(r[0] == ["F#", "A", "C#", "E"] and len(r) == 7, "cold sevenths('f#'): %r" % r)
    r[0].reverse()
    del r[1:]
    r = chords.sevenths("f#")
    check(r[0] == ["F#", "A", "C#", "E"] and r[4] == ["C#", "E", "G#", "B"] and len(r) == 7, "warm sevenths('f#'): %r" % r)
    check(chords.tonic7("f#") == ["F#", "A", "C#", "E"], "tonic7('f#')")


def _guard(clause, *args):
    try:
        clause(*args)
    except Exception as e:  # a crash inside a clause counts as a failure of it
        check(False, "%s crashed: %s: %s" % (clause.__name__, type(e).__name__, e))


def check_property():
    _guard(clause_first_call_results)
    _guard(clause_history_independence)
    _guard(clause_arguments_untouched)
    _guard(clause_results_not_shared)
    _guard(clause_siblings)
    _guard(clause_copies)
    _guard(clause_fft_lookup)
    # and once more after everything above
    _guard(run_battery, "after all other clauses")
    _guard(clause_results_not_shared)


def observed():
    # the class-level placeholders that every instance shadows in __init__
    for cls, name in (
        (NoteContainer, "notes"),
        (Bar, "bar"),
        (Track, "bars"),
        (Composition, "tracks"),
        (Composition, "selected_tracks"),
        (Suite, "compositions"),
        (MidiFile, "tracks"),
    ):
        print("OBSERVED: %s.%s (class attribute) = %r" % (cls.__name__, name, vars(cls)[name]))
    try:
        Track.bars.append("junk")
        Track.bars.remove("junk")
        print("OBSERVED: Track.bars.append on the class itself: works")
    except AttributeError as e:
        print("OBSERVED: Track.bars.append on the class itself: AttributeError: %s" % e)
    # instances are as before
    print("OBSERVED: type(Track().bars), type(NoteContainer().notes) =", type(Track().bars).__name__, type(NoteContainer().notes).__name__)


if __name__ == "__main__":
    check_property()
    observed()
    if FAILS:
        for f in FAILS[:40]:
            print("FAIL:", f)
        print("FAILED (%d checks)" % len(FAILS))
        sys.exit(1)
    print("PASS")
    sys.exit(0)
