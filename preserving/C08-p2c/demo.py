"""Demo for property C08 (diatonic harmony: functions, numerals, substitutions).

(i)  checks the clauses of the property from first principles (own scale
     construction, own numeral parser, own interval tables) and prints PASS /
     exits 0 when they all hold, FAIL / exits 1 otherwise;
(ii) prints OBSERVED: lines showing the behaviour the change alters.

The tree under test is chosen by the caller through PYTHONPATH.
"""
from __future__ import print_function

import sys

from mingus.core import chords, keys, progressions

failures = []


def check(cond, msg):
    if not cond:
        if len(failures) < 25:
            print("FAIL:", msg[:300])
        failures.append(msg)


# ---------------------------------------------------------------- first principles
LETTERS = "CDEFGAB"
NATURAL = {"C": 0, "D": 2, "E": 4, "F": 5, "G": 7, "A": 9, "B": 11}
MAJOR_STEPS = [2, 2, 1, 2, 2, 2, 1]
MINOR_STEPS = [2, 1, 2, 2, 1, 2, 2]
MAJOR_KEYS = ["Cb", "Gb", "Db", "Ab", "Eb", "Bb", "F", "C", "G", "D", "A", "E", "B", "F#", "C#"]
MINOR_KEYS = ["ab", "eb", "bb", "f", "c", "g", "d", "a", "e", "b", "f#", "c#", "g#", "d#", "a#"]
NUMERALS = ["I", "II", "III", "IV", "V", "VI", "VII"]
FUNCTIONS = ["tonic", "supertonic", "mediant", "subdominant", "dominant", "submediant", "subtonic"]
MAJOR_KEY_CASE = ["I", "ii", "iii", "IV", "V", "vi", "vii"]  # what determine() answers


def pc(note):
    """Pitch class of a note name, by arithmetic."""
    v = NATURAL[note[0]]
    for a in note[1:]:
        v += 1 if a == "#" else -1
    return v % 12


def scale(key):
    """The seven notes of a key: consecutive letters, accidentals chosen so
    that the major / natural minor step pattern comes out."""
    tonic = key[0].upper() + key[1:]
    steps = MAJOR_STEPS if key[0].isupper() else MINOR_STEPS
    res = [tonic]
    value = NATURAL[tonic[0]] + tonic.count("#") - tonic.count("b")
    li = LETTERS.index(tonic[0])
    for s in steps[:-1]:
        value += s
        li += 1
        letter = LETTERS[li % 7]
        natural = NATURAL[letter] + 12 * (li // 7)
        diff = value - natural
        res.append(letter + ("#" * diff if diff > 0 else "b" * -diff))
    return res


def stack(key, degree, size):
    sc = scale(key)
    return [sc[(degree + 2 * i) % 7] for i in range(size)]


# chord types as semitone offsets above the root, in the order of the chord notes
SUFFIXES = {
    "m": [0, 3, 7], "M": [0, 4, 7], "dim": [0, 3, 6], "aug": [0, 4, 8], "+": [0, 4, 8],
    "sus4": [0, 5, 7], "sus2": [0, 2, 7], "m7": [0, 3, 7, 10], "M7": [0, 4, 7, 11],
    "dom7": [0, 4, 7, 10], "m7b5": [0, 3, 6, 10], "dim7": [0, 3, 6, 9],
    "m/M7": [0, 3, 7, 11], "mM7": [0, 3, 7, 11], "m6": [0, 3, 7, 9], "M6": [0, 4, 7, 9],
    "6": [0, 4, 7, 9], "7sus4": [0, 5, 7, 10], "sus47": [0, 5, 7, 10], "7#5": [0, 4, 8, 10],
    "M7+": [0, 4, 8, 11], "9": [0, 4, 7, 10, 2], "M9": [0, 4, 7, 11, 2], "m9": [0, 3, 7, 10, 2],
    "7b9": [0, 4, 7, 10, 1], "7#9": [0, 4, 7, 10, 3], "7b5": [0, 4, 6, 10], "6/9": [0, 4, 7, 9, 2],
    "m11": [0, 3, 7, 10, 5], "7#11": [0, 4, 7, 10, 6], "hendrix": [0, 4, 7, 10, 3], "5": [0, 7],
}
ALL_SUFFIXES = set(chords.chord_shorthand)  # only used for "is this a known suffix"
check(set(SUFFIXES) <= ALL_SUFFIXES, "sample suffixes are all documented suffixes")


def own_parse(s):
    """Own parser: accidentals, then I/V letters in either case, then the suffix."""
    i = 0
    acc = 0
    while i < len(s) and s[i] in "#b":
        acc += 1 if s[i] == "#" else -1
        i += 1
    j = i
    while j < len(s) and s[j] in "IViv":
        j += 1
    return s[i:j].upper(), acc, s[j:]


def denote(numeral, key):
    """Pitch classes the numeral string stands for in key (first principles)."""
    roman, acc, suffix = own_parse(numeral)
    d = NUMERALS.index(roman)
    if suffix == "":
        pcs = [pc(n) for n in stack(key, d, 3)]
    elif suffix == "7":
        pcs = [pc(n) for n in stack(key, d, 4)]
    else:
        root = pc(scale(key)[d])
        pcs = [root + o for o in SUFFIXES[suffix]]
    return [(p + acc) % 12 for p in pcs]


def prefix(acc):
    return "#" * acc if acc > 0 else "b" * -acc


# ---------------------------------------------------------------- clause 1: the chords
for key in MAJOR_KEYS + MINOR_KEYS:
    check(keys.get_notes(key) == scale(key), "notes of key %s" % key)
    for d in range(7):
        tri, sev = stack(key, d, 3), stack(key, d, 4)
        check(set(tri) <= set(scale(key)) and set(sev) <= set(scale(key)), "inside key")
        check(chords.triads(key)[d] == tri, "triads(%s)[%d]" % (key, d))
        check(chords.sevenths(key)[d] == sev, "sevenths(%s)[%d]" % (key, d))
        # function names
        check(getattr(chords, FUNCTIONS[d])(key) == tri, "%s(%s)" % (FUNCTIONS[d], key))
        check(getattr(chords, FUNCTIONS[d] + "7")(key) == sev, "%s7(%s)" % (FUNCTIONS[d], key))
        # numeral aliases, both cases where they exist
        for name in set([NUMERALS[d], NUMERALS[d].lower()]):
            if hasattr(chords, name):
                check(getattr(chords, name)(key) == tri, "chords.%s(%s)" % (name, key))
                check(getattr(chords, name + "7")(key) == sev, "chords.%s7(%s)" % (name, key))
        check(hasattr(chords, NUMERALS[d]) and hasattr(chords, NUMERALS[d] + "7"), "alias exists")
        # progression strings in either case, as a string and inside a list
        for num in (NUMERALS[d], NUMERALS[d].lower()):
            check(progressions.to_chords(num, key) == [tri], "to_chords(%r, %s)" % (num, key))
            check(progressions.to_chords([num + "7"], key) == [sev], "to_chords([%r7], %s)" % (num, key))
            # accidental prefixes: every note moves by one semitone per accidental
            for acc in range(-3, 4):
                for body, base in ((num, tri), (num + "7", sev)):
                    got = progressions.to_chords(prefix(acc) + body, key)
                    ok = (
                        len(got) == 1
                        and len(got[0]) == len(base)
                        and [pc(n) for n in got[0]] == [(pc(n) + acc) % 12 for n in base]
                    )
                    check(ok, "prefix %+d on %s in %s: %r" % (acc, body, key, got))
        # chord suffixes rebuild the chord type on the root of the degree
        root = scale(key)[d]
        for suf, offsets in SUFFIXES.items():
            got = progressions.to_chords(NUMERALS[d] + suf, key)
            ok = len(got) == 1 and got[0][0] == root and [pc(n) for n in got[0]] == [
                (pc(root) + o) % 12 for o in offsets
            ]
            check(ok, "suffix %s on %s in %s: %r" % (suf, NUMERALS[d], key, got))
            if suf in ("m7", "dim", "M6"):
                for acc in (-2, 1, 3):
                    got = progressions.to_chords(prefix(acc) + NUMERALS[d].lower() + suf, key)
                    check(
                        len(got) == 1 and [pc(n) for n in got[0]] == denote(prefix(acc) + NUMERALS[d] + suf, key),
                        "prefix+suffix %s%s%s in %s" % (prefix(acc), NUMERALS[d], suf, key),
                    )
    # several at once
    check(
        progressions.to_chords(["I", "iv", "V7", "bVII7"], key)
        == [stack(key, 0, 3), stack(key, 3, 3), stack(key, 4, 4)]
        + progressions.to_chords("bVII7", key),
        "a whole progression in %s" % key,
    )
    # unrecognised numerals: the documented empty answer
    for bad in ("VIII", "IIII", "X", "", "Q7", "IVI", "bVV7"):
        check(progressions.to_chords(bad, key) == [], "unrecognised numeral %r" % bad)
        check(progressions.to_chords(["I", bad], key) == [], "unrecognised numeral in list %r" % bad)

# ---------------------------------------------------------------- clause 2: the inverse
for key in MAJOR_KEYS:
    for d in range(7):
        tri, sev = stack(key, d, 3), stack(key, d, 4)
        r = progressions.determine(tri, key)
        check(len(r) >= 1 and r[0] == FUNCTIONS[d], "determine %r in %s -> %r" % (tri, key, r))
        r = progressions.determine(sev, key)
        check(len(r) >= 1 and r[0] == FUNCTIONS[d] + " seventh", "determine %r in %s -> %r" % (sev, key, r))
        r = progressions.determine(tri, key, True)
        check(len(r) >= 1 and r[0] == MAJOR_KEY_CASE[d], "determine %r in %s short -> %r" % (tri, key, r))
        check(progressions.to_chords(r[0], key) == [tri], "numeral -> chord -> numeral (triad)")
        r = progressions.determine(sev, key, True)
        check(len(r) >= 1 and r[0] == MAJOR_KEY_CASE[d] + "7", "determine %r in %s short -> %r" % (sev, key, r))
        check(progressions.to_chords(r[0], key) == [sev], "numeral -> chord -> numeral (seventh)")
    r = progressions.determine([stack(key, 0, 3), stack(key, 4, 4)], key, True)
    check([x[0] for x in r] == ["I", "V7"], "determine on a list of chords in %s" % key)

# parse followed by format gives the string back
for num in NUMERALS:
    for acc in range(-3, 4):
        for suf in [""] + ["7"] + sorted(SUFFIXES):
            s = prefix(acc) + num + suf
            parsed = progressions.parse_string(s)
            check(tuple(parsed) == (num, acc, suf) and parsed == (num, acc, suf), "parse %r -> %r" % (s, parsed))
            check(progressions.tuple_to_string(parsed) == s, "format(parse(%r))" % s)
            check(progressions.tuple_to_string((num, acc, suf)) == s, "format of a plain tuple %r" % s)
            r, a, x = progressions.parse_string(s)
            check((r, a, x) == (num, acc, suf), "parse result unpacks %r" % s)

# ---------------------------------------------------------------- clause 3: substitutions


def well_formed(s):
    if not isinstance(s, str):
        return False
    roman, acc, suffix = own_parse(s)
    # (mixed prefixes such as '#bVII' occur and are fine: accidentals add up)
    return roman in NUMERALS and (suffix == "7" or suffix in ALL_SUFFIXES)


def root_of(numeral, key):
    roman, acc, suffix = own_parse(numeral)
    return (pc(scale(key)[NUMERALS.index(roman)]) + acc) % 12


RULES = [
    progressions.substitute_harmonic,
    progressions.substitute_minor_for_major,
    progressions.substitute_major_for_minor,
    progressions.substitute_diminished_for_diminished,
    progressions.substitute_diminished_for_dominant,
]
SUB_SUFFIXES = ["", "7", "m", "m7", "M", "M7", "dim", "dim7", "dom7", "m6", "sus4", "hendrix"]
for key in MAJOR_KEYS:
    for num in NUMERALS:
        for acc in range(-3, 4):
            for suf in SUB_SUFFIXES:
                s = prefix(acc) + num + suf
                prog = ["I", s, "V7"]
                before = list(prog)
                for rule in RULES:
                    res = rule(prog, 1)
                    check(prog == before, "%s changed the progression" % rule.__name__)
                    check(isinstance(res, list) and all(well_formed(x) for x in res), "%s(%r) -> %r" % (rule.__name__, s, res))
                for depth in (0, 1, 2):
                    if depth == 2 and (acc not in (0, -1) or key not in ("C", "Gb", "C#")):
                        continue
                    res = progressions.substitute(prog, 1, depth)
                    check(prog == before, "substitute changed the progression")
                    check(all(well_formed(x) for x in res), "substitute(%r, depth %d) -> %r" % (s, depth, res))
                # what the rules promise
                me = root_of(s, key)
                if suf in ("", "7"):
                    orig = set(denote(prefix(acc) + num, key))
                    res = progressions.substitute_harmonic(prog, 1)
                    for x in res:
                        r, a, sf = own_parse(x)
                        shared = orig & set(denote(prefix(a) + r, key))
                        check(len(shared) == 2, "harmonic substitute %r of %r shares %d notes" % (x, s, len(shared)))
                        check(sf == suf, "harmonic substitute keeps triad / seventh")
                    if acc == 0 and num in ("I", "IV", "V"):
                        check(len(res) >= 1, "harmonic substitutes of %s exist" % num)
                if suf in ("m", "m7") or (suf == "" and num in ("II", "III", "VI")):
                    res = progressions.substitute_minor_for_major(prog, 1)
                    check(len(res) >= 1, "minor for major answers for %r" % s)
                    for x in res:
                        check(root_of(x, key) == (me + 3) % 12, "minor-for-major root of %r from %r" % (x, s))
                        sf = own_parse(x)[2]
                        check(sf == {"m": "M", "m7": "M7", "": ""}[suf], "minor-for-major type of %r" % x)
                        if sf:
                            check(denote(x, key)[1] == (root_of(x, key) + 4) % 12, "it is a major chord")
                if suf in ("M", "M7") or (suf == "" and num in ("I", "IV", "V")):
                    res = progressions.substitute_major_for_minor(prog, 1)
                    check(len(res) >= 1, "major for minor answers for %r" % s)
                    for x in res:
                        check(root_of(x, key) == (me + 9) % 12, "major-for-minor root of %r from %r" % (x, s))
                        sf = own_parse(x)[2]
                        check(sf == {"M": "m", "M7": "m7", "": ""}[suf], "major-for-minor type of %r" % x)
                        if sf:
                            check(denote(x, key)[1] == (root_of(x, key) + 3) % 12, "it is a minor chord")
                if suf in ("dim", "dim7") or (suf == "" and num == "VII"):
                    res = progressions.substitute_diminished_for_diminished(prog, 1)
                    check(
                        sorted(set((root_of(x, key) - me) % 12 for x in res)) == [3, 6, 9],
                        "diminished substitutes of %r cycle by minor thirds: %r" % (s, res),
                    )
                    for x in res:
                        check(own_parse(x)[2] == (suf or "dim"), "diminished substitute type %r" % x)

# documented examples of the rules
check("III" in progressions.substitute_harmonic(["I"], 0) and "VI" in progressions.substitute_harmonic(["I"], 0), "I -> III, VI")
check(progressions.substitute_minor_for_major(["VI"], 0) == ["I"], "VI -> I")
check(progressions.substitute_minor_for_major(["Vm"], 0) == ["bVIIM"], "Vm -> bVIIM")
check(progressions.substitute_major_for_minor(["VM7"], 0) == ["IIIm7"], "VM7 -> IIIm7")
check(
    sorted(progressions.substitute_diminished_for_diminished(["VII"], 0)) == sorted(["IIdim", "IVdim", "bVIdim"]),
    "VII (B dim in C) -> IIdim, IVdim, bVIdim (D, F, Ab)",
)


# ---------------------------------------------------------------- extra: newer suffix aliases
# Suffixes this demo has no table entry for are not judged, except that the
# usual jazz aliases, IF the library knows them, must denote the usual chords.
ALIASES = {"o": [0, 3, 6], "o7": [0, 3, 6, 9], "7sus": [0, 5, 7, 10]}
for suf, offsets in ALIASES.items():
    if suf not in chords.chord_shorthand:
        continue
    for key in MAJOR_KEYS + MINOR_KEYS:
        for d in range(7):
            root = scale(key)[d]
            for acc in (-3, -1, 0, 2):
                for num in (NUMERALS[d], NUMERALS[d].lower()):
                    got = progressions.to_chords(prefix(acc) + num + suf, key)
                    check(
                        len(got) == 1 and [pc(n) for n in got[0]] == [(pc(root) + o + acc) % 12 for o in offsets],
                        "alias suffix %s on %s%s in %s: %r" % (suf, prefix(acc), num, key, got),
                    )
            s = "b" + NUMERALS[d] + suf
            check(progressions.tuple_to_string(progressions.parse_string(s)) == s, "format(parse(%r))" % s)
            prog = [s]
            for rule in RULES + [lambda p, i: progressions.substitute(p, i, 1)]:
                check(all(well_formed(x) for x in rule(prog, 0)) and prog == [s], "rules on %r" % s)

# ---------------------------------------------------------------- OBSERVED
def _outcome(f):
    try:
        return "returned %r" % (f(),)
    except Exception as e:  # noqa
        return "%s: %s" % (type(e).__name__, e)


print("OBSERVED: number of chord suffixes in chords.chord_shorthand ->", len(chords.chord_shorthand))
print(
    "OBSERVED: 'o', 'o7', '7sus' known as suffixes ->",
    [s in chords.chord_shorthand for s in ("o", "o7", "7sus")],
)
print("OBSERVED: to_chords('viio7', 'C') ->", _outcome(lambda: progressions.to_chords("viio7", "C")))
print("OBSERVED: to_chords('V7sus', 'F') ->", _outcome(lambda: progressions.to_chords("V7sus", "F")))
print("OBSERVED: from_shorthand('Bbo') ->", _outcome(lambda: chords.from_shorthand("Bbo")))
print(
    "OBSERVED: chords of substitute_diminished_for_diminished(['VIIo7'], 0, True) in C ->",
    _outcome(
        lambda: progressions.to_chords(
            progressions.substitute_diminished_for_diminished(["VIIo7"], 0, True), "C"
        )
    ),
)

if failures:
    print("FAIL (%d checks failed)" % len(failures))
    sys.exit(1)
print("PASS")
sys.exit(0)
