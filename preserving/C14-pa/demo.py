"""Standalone check of property C14 (tracks and compositions accumulate music
faithfully).  Expected values come from arithmetic / music theory only: an
entry of value v lasts 1/v of a whole note, a bar in meter (n, d) holds n/d,
pitch number = 12 * octave + pitch class.

Exit status 0 and the line PASS when every clause holds, 1 otherwise.
Lines starting with OBSERVED: show behaviour the property does not pin down.
"""
from __future__ import print_function

import random
import sys
from fractions import Fraction as F

from mingus.containers import Bar, Composition, Note, NoteContainer, Track
from mingus.containers.instrument import Guitar, Instrument, MidiInstrument, Piano
from mingus.containers.mt_exceptions import InstrumentRangeError

FAILURES = []


def check(cond, what):
    if not cond:
        FAILURES.append(what)
        if len(FAILURES) <= 20:
            print("FAIL:", what)


# ---------------------------------------------------------------- helpers
PC = {"C": 0, "C#": 1, "Db": 1, "D": 2, "Eb": 3, "E": 4, "F": 5, "F#": 6,
      "G": 7, "Ab": 8, "A": 9, "Bb": 10, "B": 11}
NAMES = sorted(PC)


def pitch(name, octave):
    return 12 * octave + PC[name]


# playable ranges as pitch numbers: C-0..C-8, F-0..B-8, E-3..E-7, C-0..B-8
RANGES = {
    "none": None,
    "generic": (pitch("C", 0), pitch("C", 8)),
    "piano": (pitch("F", 0), pitch("B", 8)),
    "guitar": (pitch("E", 3), pitch("E", 7)),
    "midi": (pitch("C", 0), pitch("B", 8)),
}


def make_instrument(kind):
    if kind == "none":
        return None
    if kind == "generic":
        return Instrument()
    if kind == "piano":
        return Piano()
    if kind == "guitar":
        return Guitar()
    m = MidiInstrument()
    m.instrument_nr = 25
    return m


VALUES = [F(1), F(2), F(4), F(8), F(16), F(32), F(3), F(6), F(12), F(8, 3), F(4, 3), F(16, 3)]
METERS = [(4, 4), (3, 4), (2, 4), (6, 8), (5, 4), (7, 8), (2, 2), (12, 8)]
KEYS = ["C", "G", "Eb", "a", "f#", "Bb"]


def bar_length(meter):
    return F(meter[0], meter[1])


def close(a, b, eps=1e-6):
    return abs(float(a) - float(b)) < eps


def names_of(content):
    """Content of an entry as a sorted list of (name, octave) or None."""
    if content is None:
        return None
    return sorted((n.name, n.octave) for n in content)


def snapshot(track):
    """Everything a user can see by iterating the track."""
    res = []
    for bar in track:
        entries = []
        for beat, dur, content in bar:
            entries.append((round(float(beat), 6), round(float(dur), 6), names_of(content)))
        res.append((bar.key.key, tuple(bar.meter), entries))
    return res


def items_of(track):
    """Flat list of (value, content) in order - once through the bars and
    once through get_notes(); both must agree."""
    via_bars = [(round(float(d), 6), names_of(c)) for bar in track for (_b, d, c) in bar]
    via_get = [(round(float(d), 6), names_of(c)) for (_b, d, c) in track.get_notes()]
    check(via_bars == via_get, "get_notes() and bar iteration disagree")
    return via_bars


# ------------------------------------------------- clause 1-5: add sequences
def random_item(rng, lo_hi):
    """Return (thing to add, expected content, in_range).  lo_hi is the
    instrument's pitch range or None."""
    r = rng.random()
    if r < 0.2:
        return None, None, True
    n = 1 if r < 0.7 else rng.randint(2, 4)
    picked = []
    for _ in range(n):
        name = rng.choice(NAMES)
        if lo_hi is not None and rng.random() < 0.75:
            # mostly aim inside or near the edge of the range
            p = rng.randint(lo_hi[0] - 3, lo_hi[1] + 3)
            octave = max(0, min(9, p // 12))
        else:
            octave = rng.randint(0, 9)
        # one note per pitch: a container keeps a single note of each pitch
        if pitch(name, octave) not in [pitch(a, o) for a, o in picked]:
            picked.append((name, octave))
    ok = lo_hi is None or all(lo_hi[0] <= pitch(a, o) <= lo_hi[1] for a, o in picked)
    form = rng.randint(0, 2)
    if len(picked) == 1 and form == 0:
        thing = "%s-%d" % picked[0]
    elif len(picked) == 1 and form == 1:
        thing = Note(picked[0][0], picked[0][1])
    else:
        thing = NoteContainer([Note(a, o) for a, o in picked])
    return thing, sorted(picked), ok


def run_sequence(rng, kind, steps):
    lo_hi = RANGES[kind]
    t = Track(make_instrument(kind))
    meter = rng.choice(METERS)
    key = rng.choice(KEYS)
    if rng.random() < 0.8:
        t.add_bar(Bar(key, meter))
    else:
        key, meter = "C", (4, 4)  # the bar a track opens by itself
    accepted = []  # (value, content)
    pos = F(0)  # filled part of the last bar, exact
    nbars_expected = len(t)
    for _ in range(steps):
        if rng.random() < 0.05 and pos == bar_length(meter):
            # user switches key/meter with an explicit bar after a full one
            meter = rng.choice(METERS)
            key = rng.choice(KEYS)
            t.add_bar(Bar(key, meter))
            nbars_expected += 1
            pos = F(0)
            continue
        thing, content, in_range = random_item(rng, lo_hi)
        v = rng.choice(VALUES)
        before = snapshot(t)
        before_items = items_of(t)
        use_plus = v == 4 and thing is not None and rng.random() < 0.5
        try:
            if use_plus:
                res = t + thing
            elif v == 4 and rng.random() < 0.3:
                res = t.add_notes(thing)  # default value is a quarter
            else:
                res = t.add_notes(thing, float(v) if v.denominator != 1 else int(v))
            raised = False
        except InstrumentRangeError:
            raised = True
            res = None
        if not in_range:
            check(raised, "out-of-range %r accepted by %s" % (thing, kind))
            check(snapshot(t) == before, "refused note changed the track (%s)" % kind)
            continue
        check(not raised, "in-range item %r refused by %s" % (thing, kind))
        if raised:
            continue
        # would it fit?  a full last bar means a fresh bar of the same meter
        L = bar_length(meter)
        start = F(0) if (pos == L or nbars_expected == 0) else pos
        fits = start + 1 / v <= L
        check(res is fits or res == fits, "add of value %s at %s in %s reported %r" % (v, pos, meter, res))
        if fits:
            if pos == L or nbars_expected == 0:
                nbars_expected += 1
            pos = start + 1 / v
            accepted.append((round(float(v), 6), content))
            check(len(t) == nbars_expected, "number of bars %d, expected %d" % (len(t), nbars_expected))
            new_bar = t[-1]
            check(new_bar.key.key == key and tuple(new_bar.meter) == meter,
                  "new bar did not inherit key/meter: %s %s" % (new_bar.key.key, new_bar.meter))
        else:
            check(res is False, "an item that does not fit must be reported False")
            check(items_of(t) == before_items, "rejected item changed the items of the track")
            if pos == L and len(t) == nbars_expected + 1:
                # the fresh bar opened after a full one stays, empty
                check(len(t[-1]) == 0 and t[-1].key.key == key and tuple(t[-1].meter) == meter,
                      "fresh bar after a rejection")
                nbars_expected += 1
                pos = F(0)
            check(len(t) == nbars_expected, "rejected item changed the number of bars")
        check(items_of(t) == accepted, "items differ from the accepted ones")
    # every bar but the last is full, beats are the running sums
    for i, bar in enumerate(t):
        filled = F(0)
        for beat, dur, _c in bar:
            check(close(beat, filled), "beat %r, expected %s" % (beat, filled))
            filled += 1 / F(dur).limit_denominator(64)
        if i < len(t) - 1:
            check(close(filled, bar_length(bar.meter)), "bar %d of %d is not full" % (i, len(t)))
    total = sum(1.0 / d for (_b, d, _c) in t.get_notes())
    check(close(total, sum(1.0 / v for v, _c in accepted), 1e-5), "total length differs")
    return t


def check_sequences():
    rng = random.Random(1414)
    for kind in ["none", "generic", "piano", "guitar", "midi"]:
        for _ in range(60):
            run_sequence(rng, kind, rng.randint(1, 40))
    # bounded exhaustive: all sequences of 4 values from {2,4,8} in 3/4 and 4/4
    for meter in [(3, 4), (4, 4)]:
        for a in (2, 4, 8):
            for b in (2, 4, 8):
                for c in (2, 4, 8):
                    for d in (2, 4, 8):
                        t = Track()
                        t.add_bar(Bar("G", meter))
                        pos, L, acc, nb = F(0), bar_length(meter), [], 1
                        for v in (a, b, c, d):
                            res = t.add_notes("E-4", v)
                            start = F(0) if pos == L else pos
                            fits = start + F(1, v) <= L
                            check(res == fits, "exhaustive: wrong answer")
                            if fits:
                                nb += 1 if pos == L else 0
                                pos = start + F(1, v)
                                acc.append((float(v), [("E", 4)]))
                        check(items_of(t) == acc and len(t) == nb, "exhaustive: wrong items")


# ------------------------------------------------- clause 6: rests / ranges
def check_ranges():
    edges = {
        "generic": [("C", 0, True), ("C", 8, True), ("C#", 8, False), ("B", 9, False)],
        "piano": [("F", 0, True), ("E", 0, False), ("B", 8, True), ("C", 9, False), ("C", 4, True)],
        "guitar": [("E", 3, True), ("Eb", 3, False), ("E", 7, True), ("F", 7, False), ("A", 4, True)],
        "midi": [("C", 0, True), ("B", 8, True), ("C", 9, False), ("G", 5, True)],
    }
    for kind, cases in edges.items():
        for name, octave, ok in cases:
            for form in (0, 1, 2):
                t = Track(make_instrument(kind))
                t.add_notes("A-4", 2)
                before = snapshot(t)
                thing = ["%s-%d" % (name, octave), Note(name, octave), NoteContainer(Note(name, octave))][form]
                try:
                    res = t.add_notes(thing, 4)
                    raised = False
                except InstrumentRangeError:
                    raised = True
                if ok:
                    check(not raised and res is True, "%s-%d must be accepted by %s" % (name, octave, kind))
                    check(items_of(t) == [(2.0, [("A", 4)]), (4.0, [(name, octave)])], "accepted note missing")
                else:
                    check(raised, "%s-%d must be refused by %s" % (name, octave, kind))
                    check(snapshot(t) == before, "refused note changed the track")
    for kind in RANGES:
        t = Track(make_instrument(kind))
        check(t.add_notes(None, 2) is True, "rest refused (%s)" % kind)
        check(t.add_notes(None, 2) is True, "rest refused (%s)" % kind)
        check(t.add_notes(None, 1) is True, "rest refused (%s)" % kind)
        check(items_of(t) == [(2.0, None), (2.0, None), (1.0, None)] and len(t) == 2, "rests not stored (%s)" % kind)


# ------------------------------------------------- clause 7: from_chords
CHORDS = {  # spelled from music theory; the root sits in octave 4 and the rest stacks upwards
    "C": ["C", "E", "G"],
    "Am": ["A", "C", "E"],
    "Dm": ["D", "F", "A"],
    "G7": ["G", "B", "D", "F"],
    "Fmaj7": ["F", "A", "C", "E"],
    "Em": ["E", "G", "B"],
}


def random_chord_list(rng, depth=0):
    res = []
    for _ in range(rng.randint(1, 4)):
        r = rng.random()
        if r < 0.2 and depth < 3:
            res.append(random_chord_list(rng, depth + 1))
        elif r < 0.35:
            res.append(None)
        else:
            res.append(rng.choice(sorted(CHORDS)))
    return res


def leaves(chords, value):
    for c in chords:
        if isinstance(c, list):
            for x in leaves(c, value * 2):
                yield x
        else:
            yield c, value


def check_from_chords():
    rng = random.Random(77)
    for case in range(300):
        meter = rng.choice([(4, 4), (3, 4), (6, 8), (5, 4), (2, 4)])
        base = rng.choice([1, 2, 4]) if meter in [(4, 4), (5, 4)] else rng.choice([2, 4])
        kind = rng.choice(["none", "piano", "generic", "midi"])
        chords = random_chord_list(rng)
        t = Track(make_instrument(kind))
        lead = rng.choice([None, 4, 8])
        if meter != (4, 4) or lead:
            t.add_bar(Bar(rng.choice(KEYS), meter))
        lead_len = F(0)
        if lead:
            t.add_notes("G-4", lead)
            lead_len = F(1, lead)
        ret = t.from_chords(chords, base)
        check(ret is t, "from_chords must hand back the track")
        expected = list(leaves(chords, base))
        entries = [(F(d).limit_denominator(96), c) for (_b, d, c) in t.get_notes()]
        if lead:
            check(entries[0][0] == lead and names_of(entries[0][1]) == [("G", 4)], "lead note lost")
            entries = entries[1:]
        # walk through the entries leaf by leaf; a leaf is one entry, or two
        # when it crosses a bar line
        L = bar_length(meter)
        pos = lead_len
        i = 0
        for chord, v in expected:
            if pos == L:
                pos = F(0)
            want = F(1, v)
            if pos + want <= L:
                pieces = [want]
                pos += want
            else:
                pieces = [L - pos, want - (L - pos)]
                pos = pieces[1]
            for piece in pieces:
                check(i < len(entries), "case %d: entries missing for %r" % (case, chord))
                if i >= len(entries):
                    break
                d, content = entries[i]
                i += 1
                check(close(1 / d, piece), "case %d: piece of %s, expected %s" % (case, 1 / d, piece))
                if chord is None:
                    check(content is None, "case %d: rest expected" % case)
                else:
                    check(content is not None and [n.name for n in content] == CHORDS[chord],
                          "case %d: chord %s stored as %r" % (case, chord, content))
        check(i == len(entries), "case %d: %d extra entries" % (case, len(entries) - i))
        total = sum(1.0 / d for (_b, d, _c) in t.get_notes())
        check(close(total, lead_len + sum(F(1, v) for _c, v in expected), 1e-5), "case %d: total length" % case)
        for bar in t.bars[:-1]:
            check(close(sum(1.0 / d for (_b, d, _c) in bar), L), "case %d: inner bar not full" % case)
    # the documented example: C | Am Dm | G7 | C#  in whole notes
    t = Track().from_chords(["C", ["Am", "Dm"], "G7", None], 1)
    check([(d, None if c is None else [n.name for n in c]) for (_b, d, c) in t.get_notes()]
          == [(1, ["C", "E", "G"]), (2, ["A", "C", "E"]), (2, ["D", "F", "A"]), (1, ["G", "B", "D", "F"]), (1, None)],
          "documented example")
    check(len(t) == 4, "documented example: four bars")


# ------------------------------------------------- clause 8/9: compositions
def check_compositions():
    c = Composition()
    check(len(c) == 0, "empty composition has length 0")
    tracks = [Track(), Track(Piano()), Track()]
    for n, t in enumerate(tracks):
        c.add_track(t)
        check(len(c) == n + 1 and c[n] is t, "add_track: length/indexing")
        check(list(c.selected_tracks) == [n], "the added track becomes the selected one")
    c.add_note("C-4")
    check([items_of(t) for t in tracks] == [[], [], [(4.0, [("C", 4)])]], "add_note reached other tracks")
    c.selected_tracks = [0, 2]
    c.add_note(NoteContainer(["E-4", "G-4"]))
    c + "D-4"
    check(items_of(tracks[0]) == [(4.0, [("E", 4), ("G", 4)]), (4.0, [("D", 4)])], "track 0 content")
    check(items_of(tracks[1]) == [], "track 1 must be untouched")
    check(items_of(tracks[2]) == [(4.0, [("C", 4)]), (4.0, [("E", 4), ("G", 4)]), (4.0, [("D", 4)])], "track 2 content")
    c.selected_tracks = [1]
    c.add_note(Note("A", 3))
    check(items_of(tracks[1]) == [(4.0, [("A", 3)])] and len(tracks[0][0]) == 2, "selection [1]")
    c.selected_tracks = []
    c.add_note("B-4")
    check([len(items_of(t)) for t in tracks] == [2, 1, 3], "empty selection must reach nothing")
    extra = Track()
    c + extra
    check(len(c) == 4 and c[3] is extra and c[-1] is extra, "'+' with a track")
    check(c == c, "a composition equals itself")
    other = Composition()
    other.add_track(Track())
    check(c != other, "compositions with different contents differ")
    # tracks: len / [] / ==
    a, b = Track(), Track(Guitar())
    for t in (a, b):
        for v in (2, 4, 4, 1):
            t.add_notes("A-4", v)
    check(len(a) == 2 and a[0] is a.bars[0] and a[1] is a.bars[1] and a[-1] is a.bars[1], "track len/index")
    check(a == b and not (a != b), "equal contents, equal tracks")
    b.add_notes("A-4", 4)
    check(not (a == b) and a != b, "different contents, different tracks")
    x, y, z = Track(), Track(), Track()
    for t, seq in ((x, ["C-4", "E-4"]), (y, ["E-4", "G#-4"]), (z, ["E-4", "G#-4"])):
        for n in seq:
            t + n
    check(x != y and not (x == y), "same shape, other notes: different tracks")
    check(y == z and not (y != z), "same notes: equal tracks")
    z2 = Track()
    z2.add_notes("E-4", 4)
    z2.add_notes("G#-4", 8)
    check(z2 != z, "same notes, other values: different tracks")
    nb = Bar("D", (6, 8))
    a[0] = nb
    check(a[0] is nb and len(a) == 2, "track item assignment")


def check_property():
    check_sequences()
    check_ranges()
    check_from_chords()
    check_compositions()


# ------------------------------------------------------------- OBSERVED
def observed():
    for kind, note in [("piano", "C-9"), ("guitar", Note("D", 3)), ("midi", NoteContainer(["C-4", "C-9"]))]:
        t = Track(make_instrument(kind))
        try:
            t.add_notes(note)
            print("OBSERVED: no error for", kind)
        except InstrumentRangeError as e:
            print("OBSERVED: %s: %s(%s)" % (kind, type(e).__name__, e))
            print("OBSERVED: %s: error carries notes=%r instrument=%r, args has %d element(s)" % (
                kind, getattr(e, "notes", "<no attribute>"), getattr(e, "instrument", "<no attribute>"), len(e.args)))


if __name__ == "__main__":
    check_property()
    observed()
    if FAILURES:
        print("FAILED: %d check(s)" % len(FAILURES))
        sys.exit(1)
    print("PASS")
    sys.exit(0)
