import itertools
import sys

import mingus.core.intervals as intervals

LETTERS = "CDEFGAB"
NATURAL = {"C": 0, "D": 2, "E": 4, "F": 5, "G": 7, "A": 9, "B": 11}
MAJOR_SIZE = [0, 2, 4, 5, 7, 9, 11]  # unison, second, ... seventh (major/perfect)
NUMBER = ["unison", "second", "third", "fourth", "fifth", "sixth", "seventh"]
ACCS = ["", "#", "##", "b", "bb"]
NAMES = [l + a for l in LETTERS for a in ACCS]  # 35 names
SHORTHANDS = [a + str(d) for d in range(1, 8) for a in ACCS]  # 35 shorthands

failures = []


def fail(msg):
    failures.append(msg)
    if len(failures) <= 15:
        print("FAIL: " + msg)


def acc_value(name):
    return name.count("#") - name.count("b")


def spell(letter, acc):
    return letter + "#" * acc + "b" * -acc


def check_determine():
    """Clause 1: naming + shorthand round trip for all pairs with written
    ascending distance 0-11."""
    n = 0
    for n1, n2 in itertools.product(NAMES, NAMES):
        i1, i2 = LETTERS.index(n1[0]), LETTERS.index(n2[0])
        number = (i2 - i1) % 7
        natural_dist = (NATURAL[n2[0]] - NATURAL[n1[0]]) % 12 if number else 0
        dist = natural_dist + acc_value(n2) - acc_value(n1)
        if not 0 <= dist <= 11:
            continue
        n += 1
        offset = dist - MAJOR_SIZE[number]
        if offset == 0:
            qualities = ("major", "perfect")
        elif offset == -1:
            qualities = ("minor",)
        elif offset < -1:
            qualities = ("diminished",)
        else:
            qualities = ("augmented",)
        long_name = intervals.determine(n1, n2)
        if long_name not in ["%s %s" % (q, NUMBER[number]) for q in qualities]:
            fail("determine(%r, %r) = %r" % (n1, n2, long_name))
        short = intervals.determine(n1, n2, True)
        if not (
            isinstance(short, str)
            and short[-1:] == str(number + 1)
            and set(short[:-1]) <= set("#b")
            and acc_value(short) == offset
        ):
            fail("determine(%r, %r, True) = %r" % (n1, n2, short))
            continue
        back = intervals.from_shorthand(n1, short)
        if back != n2:
            fail("from_shorthand(%r, %r) = %r, expected %r" % (n1, short, back, n2))
    return n


def expected_transposition(name, shorthand, up):
    degree = int(shorthand[-1]) - 1
    semitones = MAJOR_SIZE[degree] + acc_value(shorthand)
    i1 = LETTERS.index(name[0])
    if up:
        i2 = i1 + degree
        letter = LETTERS[i2 % 7]
        octave = 12 if i2 >= 7 else 0
        acc = NATURAL[name[0]] + acc_value(name) + semitones - NATURAL[letter] - octave
    else:
        i2 = i1 - degree
        letter = LETTERS[i2 % 7]
        octave = 12 if i2 < 0 else 0
        acc = NATURAL[name[0]] + acc_value(name) - semitones - NATURAL[letter] + octave
    return spell(letter, acc)


def check_from_shorthand():
    """Clause 2: every name x 35 shorthands x up/down, and up-then-down."""
    n = 0
    for name, sh in itertools.product(NAMES, SHORTHANDS):
        up = intervals.from_shorthand(name, sh)
        if up != expected_transposition(name, sh, True):
            fail("from_shorthand(%r, %r) = %r" % (name, sh, up))
        up2 = intervals.from_shorthand(name, sh, True)
        if up2 != up:
            fail("from_shorthand(%r, %r, True) = %r" % (name, sh, up2))
        down = intervals.from_shorthand(name, sh, False)
        if down != expected_transposition(name, sh, False):
            fail("from_shorthand(%r, %r, False) = %r" % (name, sh, down))
        if isinstance(up, str):
            back = intervals.from_shorthand(up, sh, False)
            if back != name:
                fail("%r up %r = %r, down again = %r" % (name, sh, up, back))
        n += 1
    return n


def check_invert():
    """Clause 3: reversed list returned, argument unchanged."""
    samples = [
        [],
        ["C"],
        ["C", "E"],
        ["E", "C"],
        ["C", "C"],
        ["C", "E", "G"],
        ["C", "E", "C"],
        ["Bb", "D#", "F##", "Abb", "Bb"],
        list(NAMES),
    ]
    for s in samples:
        arg = list(s)
        res = intervals.invert(arg)
        if res != s[::-1] or not isinstance(res, list):
            fail("invert(%r) = %r" % (s, res))
        if arg != s:
            fail("invert changed its argument %r into %r" % (s, arg))
    return len(samples)


def check_property():
    a = check_determine()
    b = check_from_shorthand()
    c = check_invert()
    print("checked %d note pairs, %d name/shorthand combinations, %d lists" % (a, b, c))
    return not failures


def finish():
    if failures:
        print("FAIL (%d violations)" % len(failures))
        sys.exit(1)
    print("PASS")
    sys.exit(0)


def observed():
    import signal

    helper = intervals.augment_or_diminish_until_the_interval_is_right

    # (1) called directly with a second note that already carries accidentals
    for args in [("C", "Cb", 0), ("C", "B#", 11), ("C#", "Dbb", 1)]:
        print("OBSERVED: helper%r = %r" % (args, helper(*args)))

    # (2) an interval of more than an octave (never reached by the library itself)
    def on_alarm(signum, frame):
        raise RuntimeError("no result after 2 seconds")

    if hasattr(signal, "SIGALRM"):
        signal.signal(signal.SIGALRM, on_alarm)
        signal.alarm(2)
        try:
            res = repr(helper("C", "E", 16))
        except RuntimeError as e:
            res = "<%s>" % e
        finally:
            signal.alarm(0)
        print("OBSERVED: helper('C', 'E', 16) = %s" % res)


if __name__ == "__main__":
    check_property()
    observed()
    finish()
