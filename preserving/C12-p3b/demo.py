from __future__ import print_function

import itertools
import random
import sys

from mingus.containers import Note, NoteContainer

# ---------------------------------------------------------------------------
# (i) the property, checked against an independent model
# ---------------------------------------------------------------------------
LETTER = {"C": 0, "D": 2, "E": 4, "F": 5, "G": 7, "A": 9, "B": 11}
FAILS = []


def pitch(name, octave):
    """Semitones above C-0 (C-4 = 48), from the letter and its accidentals."""
    return 12 * octave + LETTER[name[0]] + name.count("#") - name.count("b")


def check(cond, what):
    if not cond:
        FAILS.append(what)


class Model(object):
    """A set of pitches; each pitch remembers the (name, octave) that got in."""

    def __init__(self):
        self.d = {}

    def add(self, name, octave):
        self.d.setdefault(pitch(name, octave), (name, octave))

    def add_bare(self, name):
        if not self.d:
            self.add(name, 4)
            return
        top = max(self.d)
        # the one octave that puts the name at or above the top note and less
        # than an octave above it (names used here never cross a B/C border,
        # so octave number == pitch // 12)
        for octave in range(0, 12):
            if top <= pitch(name, octave) < top + 12:
                self.add(name, octave)
                return
        raise AssertionError("no octave found")

    def remove_name(self, name):
        for p in [p for p, (n, o) in self.d.items() if n == name]:
            del self.d[p]

    def remove_name_octave(self, name, octave):
        for p in [p for p, (n, o) in self.d.items() if (n, o) == (name, octave)]:
            del self.d[p]

    def remove_pitch(self, p):
        self.d.pop(p, None)

    def content(self):
        return [self.d[p] for p in sorted(self.d)]


# operation alphabet: (label, apply to container, apply to model)
def op_add_note_obj(name, octave):
    return (
        "add Note(%s-%d)" % (name, octave),
        lambda nc: nc.add_note(Note(name, octave)),
        lambda m: m.add(name, octave),
    )


def op_add_bare(name):
    return ("add '%s'" % name, lambda nc: nc.add_note(name), lambda m: m.add_bare(name))


def op_add_name_octave(name, octave):
    return (
        "add ('%s', %d)" % (name, octave),
        lambda nc: nc.add_note(name, octave),
        lambda m: m.add(name, octave),
    )


def op_add_dash(name, octave):
    return (
        "add '%s-%d'" % (name, octave),
        lambda nc: nc.add_note("%s-%d" % (name, octave)),
        lambda m: m.add(name, octave),
    )


def op_add_list(names):
    def on_model(m):
        for n in names:
            m.add_bare(n)

    return ("add_notes(%r)" % (names,), lambda nc: nc.add_notes(list(names)), on_model)


def op_add_pairs(pairs):
    def on_model(m):
        for n, o in pairs:
            m.add(n, o)

    return (
        "add_notes(%r)" % (pairs,),
        lambda nc: nc.add_notes([[n, o] for n, o in pairs]),
        on_model,
    )


def op_plus_container(pairs):
    def on_nc(nc):
        other = NoteContainer([Note(n, o) for n, o in pairs])
        res = nc + other
        check(res is nc or res == nc, "'+' result is not the container")

    def on_model(m):
        for n, o in sorted(pairs, key=lambda x: pitch(*x)):
            m.add(n, o)

    return ("+ container %r" % (pairs,), on_nc, on_model)


def op_plus_name(name):
    def on_nc(nc):
        nc + name

    return ("+ '%s'" % name, on_nc, lambda m: m.add_bare(name))


def op_remove_name(name):
    return (
        "remove '%s'" % name,
        lambda nc: nc.remove_note(name),
        lambda m: m.remove_name(name),
    )


def op_remove_name_octave(name, octave):
    return (
        "remove ('%s', %d)" % (name, octave),
        lambda nc: nc.remove_note(name, octave),
        lambda m: m.remove_name_octave(name, octave),
    )


def op_remove_obj(name, octave):
    return (
        "remove Note(%s-%d)" % (name, octave),
        lambda nc: nc.remove_note(Note(name, octave)),
        lambda m: m.remove_pitch(pitch(name, octave)),
    )


def op_remove_list(names):
    def on_model(m):
        for n in names:
            m.remove_name(n)

    return (
        "remove_notes(%r)" % (names,),
        lambda nc: nc.remove_notes(list(names)),
        on_model,
    )


def op_minus(name):
    def on_nc(nc):
        nc - name

    return ("- '%s'" % name, on_nc, lambda m: m.remove_name(name))


ALPHABET = [
    op_add_note_obj("C", 4),
    op_add_note_obj("G", 3),
    op_add_note_obj("Db", 5),
    op_add_note_obj("C#", 5),  # same pitch as Db-5
    op_add_bare("C"),
    op_add_bare("E"),
    op_add_bare("Bb"),
    op_add_name_octave("E", 5),
    op_add_name_octave("C", 2),
    op_add_dash("G", 4),
    op_add_list(["A", "C", "E"]),
    op_add_pairs([("C", 5), ("E", 3)]),
    op_plus_container([("G", 3), ("E", 5), ("F#", 4)]),
    op_plus_name("G"),
    op_remove_name("C"),
    op_remove_name("E"),
    op_remove_name_octave("C", 4),
    op_remove_name_octave("E", 5),
    op_remove_obj("G", 3),
    op_remove_obj("C#", 5),
    op_remove_list(["G", "Bb"]),
    op_minus("A"),
]


def consonance_expected(pitches):
    """(consonant, consonant without fourths, perfect, perfect without
    fourths, imperfect) for a rising list of pitches: every pair's interval,
    measured upwards from the lower note and reduced to one octave, must be
    in the respective class."""
    diffs = [(b - a) % 12 for a, b in itertools.combinations(pitches, 2)]
    perfect4 = {0, 5, 7}
    perfect = {0, 7}
    imperfect = {3, 4, 8, 9}
    return (
        all(d in perfect4 | imperfect for d in diffs),
        all(d in perfect | imperfect for d in diffs),
        all(d in perfect4 for d in diffs),
        all(d in perfect for d in diffs),
        all(d in imperfect for d in diffs),
    )


PROBES = [(n, o) for o in (2, 3, 4, 5, 6) for n in ("C", "C#", "Db", "E", "F#", "G", "A", "Bb")]


def verify(nc, model, trail):
    want = model.content()
    got = [(n.name, n.octave) for n in nc.notes]
    tag = " after " + " ; ".join(trail)
    check(got == want, "content %r != %r%s" % (got, want, tag))
    ps = [pitch(n, o) for n, o in got]
    check(all(a < b for a, b in zip(ps, ps[1:])), "not strictly rising" + tag)
    check([int(n) for n in nc.notes] == sorted(model.d), "int() pitches differ" + tag)
    check(len(nc) == len(want), "len" + tag)
    for n, o in PROBES:
        check((Note(n, o) in nc) == (pitch(n, o) in model.d), "membership %s-%d%s" % (n, o, tag))
    names = nc.get_note_names()
    check(len(names) == len(set(names)), "names repeated" + tag)
    check(set(names) == set(n for n, o in want), "names" + tag)
    # equality: same content built another way / one note more / one swapped
    twin = NoteContainer([Note(n, o) for n, o in reversed(want)])
    check(nc == twin and twin == nc and not (nc != twin), "equality with twin" + tag)
    more = NoteContainer([Note(n, o) for n, o in want] + [Note("F", 7)])
    check(not (nc == more) and nc != more, "equality with bigger one" + tag)
    if want:
        other = NoteContainer([Note(n, o) for n, o in want[:-1]] + [Note("F", 7)])
        check(not (nc == other), "equality with different one" + tag)
    exp = consonance_expected(sorted(model.d))
    gotc = (
        nc.is_consonant(),
        nc.is_consonant(False),
        nc.is_perfect_consonant(),
        nc.is_perfect_consonant(False),
        nc.is_imperfect_consonant(),
    )
    check(tuple(bool(x) for x in gotc) == exp, "consonance %r != %r%s" % (gotc, exp, tag))


def run_sequences():
    count = 0
    # exhaustive to depth 3
    for depth in (1, 2, 3):
        for seq in itertools.product(ALPHABET, repeat=depth):
            nc, model, trail = NoteContainer(), Model(), []
            for label, on_nc, on_model in seq:
                on_nc(nc)
                on_model(model)
                trail.append(label)
            verify(nc, model, trail)
            count += 1
    # longer random ones, verified after every step
    rnd = random.Random(1212)
    for _ in range(300):
        nc, model, trail = NoteContainer(), Model(), []
        for _ in range(rnd.randrange(4, 15)):
            label, on_nc, on_model = rnd.choice(ALPHABET)
            on_nc(nc)
            on_model(model)
            trail.append(label)
            verify(nc, model, trail)
        count += 1
    return count


# shorthand constructors: expected notes written out by hand
CHORDS = {
    "C": "C-4 E-4 G-4",
    "Am": "A-4 C-5 E-5",
    "C7": "C-4 E-4 G-4 Bb-4",
    "Gmaj7": "G-4 B-4 D-5 F#-5",
    "Dm7": "D-4 F-4 A-4 C-5",
    "F#dim": "F#-4 A-4 C-5",
    "Bbaug": "Bb-4 D-5 F#-5",
    "E7": "E-4 G#-4 B-4 D-5",
    "Ebm": "Eb-4 Gb-4 Bb-4",
    "Asus4": "A-4 D-5 E-5",
    "C9": "C-4 E-4 G-4 Bb-4 D-5",
    "Bm7b5": "B-4 D-5 F-5 A-5",
}
INTERVALS = {
    ("C", "5"): "C-4 G-4",
    ("C", "1"): "C-4",
    ("A", "3"): "A-4 C#-5",
    ("E", "b3"): "E-4 G-4",
    ("B", "2"): "B-4 C#-5",
    ("F", "4"): "F-4 Bb-4",
    ("G", "b7"): "G-4 F-5",
    ("D", "6"): "D-4 B-4",
}
PROGRESSIONS = {
    ("I", "C"): "C-4 E-4 G-4",
    ("V7", "C"): "G-4 B-4 D-5 F-5",
    ("VI", "C"): "A-4 C-5 E-5",
    ("ii", "G"): "A-4 C-5 E-5",
    ("IV", "F"): "Bb-4 D-5 F-5",
    ("V", "D"): "A-4 C#-5 E-5",
    ("I7", "Eb"): "Eb-4 G-4 Bb-4 D-5",
    ("vii", "C"): "B-4 D-5 F-5",
}


def spell(nc):
    return " ".join("%s-%d" % (n.name, n.octave) for n in nc.notes)


def run_constructors():
    for sh, want in CHORDS.items():
        nc = NoteContainer(["F", "A"])  # previous content must go
        res = nc.from_chord_shorthand(sh)
        check(spell(nc) == want, "chord %s: %s" % (sh, spell(nc)))
        check(res is nc, "from_chord_shorthand result")
        check(spell(NoteContainer().from_chord(sh)) == want, "from_chord %s" % sh)
    for (start, sh), want in INTERVALS.items():
        nc = NoteContainer(["F", "A"])
        nc.from_interval_shorthand(start, sh)
        check(spell(nc) == want, "interval %s %s: %s" % (start, sh, spell(nc)))
        check(spell(NoteContainer().from_interval(start, sh)) == want, "from_interval")
    for (sh, key), want in PROGRESSIONS.items():
        nc = NoteContainer(["F", "A"])
        nc.from_progression_shorthand(sh, key)
        check(spell(nc) == want, "progression %s in %s: %s" % (sh, key, spell(nc)))
        check(spell(NoteContainer().from_progression(sh, key)) == want, "from_progression")
    # bare names in order: voiced upwards
    check(spell(NoteContainer(["C", "E", "G", "B", "D", "F", "A"])) ==
          "C-4 E-4 G-4 B-4 D-5 F-5 A-5", "stack of thirds")
    check(spell(NoteContainer(["G", "G", "F#", "G"])) == "G-4 F#-5 G-5", "G G F# G")
    check(spell(NoteContainer(["B", "C", "B", "C"])) == "B-4 C-5 B-5 C-6", "B C B C")


# ---------------------------------------------------------------------------
# (ii) what the change alters
# ---------------------------------------------------------------------------
def observed():
    n = Note("C#", 4)
    print("OBSERVED: str(Note('C#', 4)) = %r ; repr = %r" % (str(n), repr(n)))
    print("OBSERVED: 'top note is %%s' %% n -> %r" % ("top note is %s" % n))
    print("OBSERVED: '{}'.format(n) -> %r" % "{}".format(n))
    try:
        back = Note(str(n))
        res = "Note %r (name %r, octave %r)" % (back, back.name, back.octave)
    except Exception as e:
        res = "%s: %s" % (type(e).__name__, e)
    print("OBSERVED: Note(str(n)) ->", res)
    nc = NoteContainer(["C", "E", "G"])
    print("OBSERVED: [str(x) for x in nc] = %r ; str(nc) = %r" % ([str(x) for x in nc], str(nc)))


if __name__ == "__main__":
    n = run_sequences()
    run_constructors()
    # text forms the property does not talk about, but that must stay usable:
    # the repr of a note and of a container still show the quoted names
    check(repr(Note("Bb", 3)) == "'Bb-3'", "repr(Note)")
    check(repr(NoteContainer(["C", "E"])) == "['C-4', 'E-4']", "repr(NoteContainer)")
    observed()
    if FAILS:
        for f in FAILS[:20]:
            print("FAIL:", f)
        print("FAIL (%d problems in %d sequences)" % (len(FAILS), n))
        sys.exit(1)
    print("PASS (%d operation sequences, %d constructor cases)"
          % (n, len(CHORDS) + len(INTERVALS) + len(PROGRESSIONS)))
    sys.exit(0)
