"""Demo for change C05/b: major and minor scales on tonics without a key signature.

(i) checks property C05 from first principles, (ii) prints OBSERVED lines
showing what Major('G#'), NaturalMinor('Db') ... do: the tonic is none of the
15 key pairs, so the statement's "tonics valid for the class" does not cover it.
"""
from __future__ import print_function

import random
import sys

from mingus.core import scales

LETTERS = "CDEFGAB"
BASE = {"C": 0, "D": 2, "E": 4, "F": 5, "G": 7, "A": 9, "B": 11}

FAILURES = []


def fail(msg):
    FAILURES.append(msg)
    if len(FAILURES) <= 20:
        print("FAIL:", msg)


def pc(note):
    """Pitch class of a note name, from the letter and its accidentals."""
    return (BASE[note[0]] + note.count("#") - note.count("b")) % 12


def spell(tonic, pattern):
    """Heptatonic scale on tonic: consecutive letters, given semitone steps."""
    res = [tonic]
    li = LETTERS.index(tonic[0])
    cur = BASE[tonic[0]] + tonic.count("#") - tonic.count("b")
    for k, step in enumerate(pattern[:-1]):
        cur += step
        letter = LETTERS[(li + k + 1) % 7]
        nat = BASE[letter] + 12 * ((li + k + 1) // 7)
        acc = cur - nat
        res.append(letter + ("#" * acc if acc >= 0 else "b" * -acc))
    return res  # seven notes, no closing tonic


PATTERNS = {
    "Ionian": [2, 2, 1, 2, 2, 2, 1],
    "Dorian": [2, 1, 2, 2, 2, 1, 2],
    "Phrygian": [1, 2, 2, 2, 1, 2, 2],
    "Lydian": [2, 2, 2, 1, 2, 2, 1],
    "Mixolydian": [2, 2, 1, 2, 2, 1, 2],
    "Aeolian": [2, 1, 2, 2, 1, 2, 2],
    "Locrian": [1, 2, 2, 1, 2, 2, 2],
    "Major": [2, 2, 1, 2, 2, 2, 1],
    "HarmonicMajor": [2, 2, 1, 2, 1, 3, 1],
    "NaturalMinor": [2, 1, 2, 2, 1, 2, 2],
    "HarmonicMinor": [2, 1, 2, 2, 1, 3, 1],
    "MelodicMinor": [2, 1, 2, 2, 2, 2, 1],
    "Bachian": [2, 1, 2, 2, 2, 2, 1],
    "MinorNeapolitan": [1, 2, 2, 2, 1, 3, 1],
    "Chromatic": [1] * 12,
    "WholeTone": [2] * 6,
    "Octatonic": [2, 1] * 4,
}
# ascending pattern of the scale whose reverse is the descending form
DESC_PATTERNS = {
    "MelodicMinor": [2, 1, 2, 2, 1, 2, 2],  # natural minor
    "MinorNeapolitan": [1, 2, 2, 2, 1, 2, 2],  # natural minor, lowered second
}

MAJOR_KEYS = ["Cb", "Gb", "Db", "Ab", "Eb", "Bb", "F", "C", "G", "D", "A", "E", "B", "F#", "C#"]
MINOR_KEYS = ["ab", "eb", "bb", "f", "c", "g", "d", "a", "e", "b", "f#", "c#", "g#", "d#", "a#"]
MINOR_TONICS = [k[0].upper() + k[1:] for k in MINOR_KEYS]
ANY_NOTE = [l + a for l in LETTERS for a in ("", "#", "b")]

MAJOR_FAMILY = ["Major", "HarmonicMajor"]
MINOR_FAMILY = ["NaturalMinor", "HarmonicMinor", "MelodicMinor", "Bachian", "MinorNeapolitan"]
FAMILY_NAME = {
    "Major": "major",
    "HarmonicMajor": "harmonic major",
    "NaturalMinor": "natural minor",
    "HarmonicMinor": "harmonic minor",
    "MelodicMinor": "melodic minor",
    "Bachian": "Bachian",
    "MinorNeapolitan": "minor Neapolitan",
}


def tonics_for(cname):
    """(constructor argument, expected tonic) pairs."""
    if cname in MAJOR_FAMILY:
        return [(t, t) for t in MAJOR_KEYS]
    if cname in MINOR_FAMILY:
        return [(t, t) for t in MINOR_TONICS]
    if cname == "Chromatic":
        keys = MAJOR_KEYS + MINOR_KEYS
        return [(k, k[0].upper() + k[1:]) for k in keys]
    return [(t, t) for t in ANY_NOTE]


def steps(notes):
    return [(pc(b) - pc(a)) % 12 for a, b in zip(notes, notes[1:])]


def check_scales(max_octaves=3):
    for cname, pattern in sorted(PATTERNS.items()):
        cls = getattr(scales, cname)
        hept = len(pattern) == 7
        for arg, tonic in tonics_for(cname):
            for n in range(1, max_octaves + 1):
                tag = "%s(%r, %d)" % (cname, arg, n)
                s = cls(arg, n)
                asc = s.ascending()
                desc = s.descending()
                # the step pattern, n times
                if steps(asc) != pattern * n:
                    fail("%s ascending steps %r" % (tag, steps(asc)))
                if len(asc) != len(pattern) * n + 1:
                    fail("%s ascending length %d" % (tag, len(asc)))
                # begins and ends on the tonic
                if asc[0] != tonic or asc[-1] != tonic:
                    fail("%s does not begin/end on the tonic: %r" % (tag, asc))
                if desc[0] != tonic or desc[-1] != tonic:
                    fail("%s descending does not begin/end on the tonic" % tag)
                # consecutive letters (and hence one definite spelling)
                if hept:
                    want = spell(tonic, pattern) * n + [tonic]
                    if list(asc) != want:
                        fail("%s ascending %r, expected %r" % (tag, asc, want))
                # descending form
                if cname in DESC_PATTERNS:
                    want = spell(tonic, DESC_PATTERNS[cname]) * n + [tonic]
                    want.reverse()
                    if list(desc) != want:
                        fail("%s descending %r, expected %r" % (tag, desc, want))
                elif cname == "Chromatic":
                    # the library spells the way down with flats: same pitches
                    if [pc(x) for x in desc] != [pc(x) for x in reversed(asc)]:
                        fail("%s descending is not the reverse" % tag)
                else:
                    if list(desc) != list(reversed(asc)):
                        fail("%s descending is not the exact reverse" % tag)
                # degrees
                for d in range(1, len(asc)):
                    if s.degree(d) != asc[d - 1] or s.degree(d, "a") != asc[d - 1]:
                        fail("%s degree %d ascending" % (tag, d))
                    if s.degree(d, "d") != desc[len(desc) - d]:
                        fail("%s degree %d descending" % (tag, d))
                # length and equality follow the note lists
                if len(s) != len(asc):
                    fail("%s len()" % tag)
                if not (s == cls(arg, n)) or (s != cls(arg, n)):
                    fail("%s not equal to its twin" % tag)
                if s == cls(arg, n + 1) or not (s != cls(arg, n + 1)):
                    fail("%s equal to a longer scale" % tag)
    for t in MAJOR_KEYS:
        if not (scales.Major(t) == scales.Ionian(t)):
            fail("Major(%r) != Ionian" % t)
        if scales.Major(t) == scales.HarmonicMajor(t):
            fail("Major(%r) == HarmonicMajor" % t)
    for t in MINOR_TONICS:
        if not (scales.NaturalMinor(t) == scales.Aeolian(t)):
            fail("NaturalMinor(%r) != Aeolian" % t)
        if scales.MelodicMinor(t) == scales.Bachian(t):
            fail("MelodicMinor(%r) == Bachian (descending forms differ)" % t)


def recognition_table():
    """name -> (ascending note set, descending note set), from first principles."""
    table = {}
    for fam, tonics in ((MAJOR_FAMILY, MAJOR_KEYS), (MINOR_FAMILY, MINOR_TONICS)):
        for cname in fam:
            for t in tonics:
                asc = set(spell(t, PATTERNS[cname]))
                desc = set(spell(t, DESC_PATTERNS.get(cname, PATTERNS[cname])))
                table["%s %s" % (t, FAMILY_NAME[cname])] = (asc, desc)
    return table


def check_recognition(seed=5, samples=250):
    table = recognition_table()
    if len(table) != 105:
        fail("specification table has %d entries" % len(table))
    rng = random.Random(seed)
    pool = [l + a for l in LETTERS for a in ("", "#", "b", "##", "bb")]
    queries = [[], ["C"], ["A", "Bb", "E", "F#", "G"], ["C", "E", "G"], ["E#"], ["Fb", "Cb"]]
    names = sorted(table)
    for _ in range(samples):
        asc, desc = table[rng.choice(names)]
        src = sorted(rng.choice([asc, desc]))
        queries.append(rng.sample(src, rng.randint(1, 7)))
        queries.append(rng.sample(pool, rng.randint(1, 4)))
    for q in queries:
        want = set(
            name for name, (asc, desc) in table.items() if set(q) <= asc or set(q) <= desc
        )
        got = scales.determine(list(q))
        if set(got) != want:
            fail(
                "determine(%r): missing %r, unexpected %r"
                % (q, sorted(want - set(got)), sorted(set(got) - want))
            )


def run():
    check_scales()
    check_recognition()
    return not FAILURES


THEORETICAL_MAJOR = ["G#", "D#", "A#", "E#", "B#", "Fb"]
THEORETICAL_MINOR = ["Db", "Gb", "Cb", "Fb", "E#", "B#"]


def check_theoretical():
    """Wherever a scale can be built on such a tonic, the clauses hold for it too."""
    built = 0
    for fam, tonics in ((MAJOR_FAMILY, THEORETICAL_MAJOR), (MINOR_FAMILY, THEORETICAL_MINOR)):
        for cname in fam:
            cls = getattr(scales, cname)
            for t in tonics:
                for n in (1, 2):
                    try:
                        s = cls(t, n)
                        asc, desc = s.ascending(), s.descending()
                    except Exception:
                        continue
                    built += 1
                    tag = "%s(%r, %d)" % (cname, t, n)
                    if list(asc) != spell(t, PATTERNS[cname]) * n + [t]:
                        fail("%s ascending %r" % (tag, asc))
                    want = spell(t, DESC_PATTERNS.get(cname, PATTERNS[cname])) * n + [t]
                    if list(desc) != list(reversed(want)):
                        fail("%s descending %r" % (tag, desc))
                    for d in range(1, len(asc)):
                        if s.degree(d) != asc[d - 1] or s.degree(d, "d") != desc[len(desc) - d]:
                            fail("%s degree %d" % (tag, d))
                    if len(s) != len(asc) or not (s == cls(t, n)):
                        fail("%s len / equality" % tag)
    return built


def attempt(label, fn):
    try:
        res = fn()
    except Exception as e:  # noqa - we want to show whatever happens
        print("OBSERVED: %s -> raises %s: %s" % (label, type(e).__name__, e))
    else:
        print("OBSERVED: %s -> %r" % (label, res))


def observed(built):
    attempt("Major('G#').ascending()", lambda: scales.Major("G#").ascending())
    attempt("HarmonicMajor('Fb').ascending()", lambda: scales.HarmonicMajor("Fb").ascending())
    attempt("NaturalMinor('Db').ascending()", lambda: scales.NaturalMinor("Db").ascending())
    attempt("MelodicMinor('Gb', 2).descending()", lambda: scales.MelodicMinor("Gb", 2).descending())
    attempt("Major('D#') == Ionian('D#')", lambda: scales.Major("D#") == scales.Ionian("D#"))
    print("OBSERVED: scales that could be built on a tonic outside the 15 key pairs: %d" % built)
    # unchanged by the change (not an OBSERVED difference): a non-note is still refused
    try:
        scales.Major("H").ascending()
        fail("Major('H') accepted")
    except Exception as e:
        print("still refused: Major('H') -> %s: %s" % (type(e).__name__, e))


if __name__ == "__main__":
    run()
    built = check_theoretical()
    ok = not FAILURES
    observed(built)
    ok = ok and not FAILURES
    print("PASS" if ok else "FAIL (%d problems)" % len(FAILURES))
    sys.exit(0 if ok else 1)
