"""Property C14 demo: checks the clauses from first principles, then prints OBSERVED lines."""
import random
import sys
from fractions import Fraction

from mingus.containers import Bar, Composition, Note, NoteContainer, Track
from mingus.containers.instrument import Guitar, Instrument, MidiInstrument, Piano
from mingus.containers.mt_exceptions import InstrumentRangeError

FAILS = []


def check(cond, msg):
    if not cond:
        FAILS.append(msg)


# ---------------------------------------------------------------- helpers
# note values as (what is handed to the library, exact length in whole notes)
VALUES = [
    (1, Fraction(1)), (2, Fraction(1, 2)), (4, Fraction(1, 4)), (8, Fraction(1, 8)),
    (16, Fraction(1, 16)), (32, Fraction(1, 32)), (3, Fraction(1, 3)), (6, Fraction(1, 6)),
    (12, Fraction(1, 12)), (5, Fraction(1, 5)), (10, Fraction(1, 10)),
    (4 / 1.5, Fraction(3, 8)),   # dotted quarter
    (8 / 1.5, Fraction(3, 16)),  # dotted eighth
    (2.0, Fraction(1, 2)), (8.0, Fraction(1, 8)),
]
METERS = [(4, 4), (3, 4), (6, 8), (5, 4), (2, 2), (7, 8), (2, 4), (12, 8)]
KEYS = ["C", "G", "F", "Bb", "a", "e", "D"]
SEMI = {"C": 0, "D": 2, "E": 4, "F": 5, "G": 7, "A": 9, "B": 11}


def pitch(name, octave):
    """Semitones above C-0, from the letter, the accidentals and the octave."""
    p = SEMI[name[0]] + 12 * octave
    for a in name[1:]:
        p += 1 if a == "#" else -1
    return p


def length_of(v):
    """Exact length (in whole notes) of a stored note value."""
    return Fraction(1.0 / v).limit_denominator(3840)


def content(c):
    """What an entry holds: None for a rest, else the sorted (name, octave) pairs."""
    if c is None:
        return None
    return sorted((n.name, n.octave) for n in c)


def entries(track):
    """All (value, content) pairs of a track, bar after bar, via plain iteration."""
    out = []
    for bar in track:
        for e in bar:
            beat, val, c = e
            out.append((val, content(c)))
    return out


def entries_get_notes(track):
    out = []
    for e in track.get_notes():
        beat, val, c = e
        out.append((val, content(c)))
    return out


def keyname(k):
    return str(getattr(k, "key", k))


ITEMS = [
    ("C", [("C", 4)]),
    ("E-5", [("E", 5)]),
    ("Bb-3", [("Bb", 3)]),
    (None, None),
    (["C-4", "G-4"], [("C", 4), ("G", 4)]),
    (["A-3", "C#-4", "E-4"], [("A", 3), ("C#", 4), ("E", 4)]),
]


def make_item(rng):
    spec, cont = rng.choice(ITEMS)
    kind = rng.randrange(3)
    if spec is None:
        return None, None
    if isinstance(spec, list):
        if kind == 0:
            return list(spec), sorted(cont)
        return NoteContainer(list(spec)), sorted(cont)
    if kind == 0:
        return spec, sorted(cont)
    if kind == 1:
        return Note(spec), sorted(cont)
    return NoteContainer(spec), sorted(cont)


# ---------------------------------------------------------------- clause 1
def check_accumulation(seed, rounds=250):
    rng = random.Random(seed)
    for r in range(rounds):
        meter = rng.choice(METERS)
        key = rng.choice(KEYS)
        cap = Fraction(meter[0], meter[1])
        t = Track()
        explicit = rng.random() < 0.8
        if explicit:
            t.add_bar(Bar(key, meter))
        else:
            meter, key, cap = (4, 4), "C", Fraction(1)
        model = []          # accepted (value, content)
        pos = Fraction(0)   # fill of the last bar
        accepted_len = Fraction(0)
        for step in range(rng.randint(1, 30)):
            item, cont = make_item(rng)
            v, ln = rng.choice(VALUES)
            before = entries(t)
            nbars = len(t)
            last_full = nbars > 0 and pos == cap
            use_plus = item is not None and not isinstance(item, list) and rng.random() < 0.2
            if use_plus:
                v, ln = 4, Fraction(1, 4)
                res = t + item
            else:
                res = t.add_notes(item, v)
            if last_full:
                pos = Fraction(0)
            fits = pos + ln <= cap
            check(bool(res) == fits, "accept/reject wrong: meter %s pos %s value %s -> %r" % (meter, pos, v, res))
            if fits:
                model.append((v, cont))
                pos += ln
                accepted_len += ln
            else:
                check(entries(t) == before, "a rejected item changed the track")
            if len(t) > nbars and nbars > 0:
                check(last_full, "new bar opened although the last one was not full")
            if len(t) > nbars:
                check(len(t) == nbars + 1, "more than one bar opened")
                check(tuple(t[-1].meter) == meter, "new bar has meter %r, expected %r" % (t[-1].meter, meter))
                check(keyname(t[-1].key) == key, "new bar has key %r, expected %r" % (t[-1].key, key))
            got = entries(t)
            check(got == model, "iteration differs from accepted items: %r != %r" % (got, model))
        check(entries_get_notes(t) == model, "get_notes differs from accepted items")
        for b in t.bars[:-1]:
            check(sum(length_of(e[1]) for e in b) == cap, "an inner bar is not full")
            check(b.is_full(), "an inner bar does not report full")
        check(t.test_integrity(), "test_integrity false")
        total = sum(length_of(e[1]) for b in t for e in b)
        check(total == accepted_len, "sum of entry lengths %s != accepted %s" % (total, accepted_len))
        check(len(t) == len(t.bars), "len(track)")
        for i in range(len(t)):
            check(t[i] is t.bars[i], "track[i]")


# ---------------------------------------------------------------- clause 2
RANGES = [
    (lambda: None, None, None),
    (Instrument, ("C", 0), ("C", 8)),
    (Piano, ("F", 0), ("B", 8)),
    (Guitar, ("E", 3), ("E", 7)),
    (lambda: MidiInstrument("Violin"), ("C", 0), ("B", 8)),
]


def check_instruments():
    names = ["C", "C#", "Db", "E", "F", "Gb", "A", "B"]
    for mk, lo, hi in RANGES:
        for name in names:
            for octave in range(0, 10):
                t = Track(mk())
                p = pitch(name, octave)
                inside = lo is None or pitch(*lo) <= p <= pitch(*hi)
                # rests first: accepted with and without an instrument
                check(t.add_notes(None, 4) is not False and entries(t) == [(4, None)], "rest refused")
                before = entries(t)
                for form in (Note(name, octave), "%s-%d" % (name, octave), NoteContainer(Note(name, octave))):
                    t2 = Track(mk())
                    t2.add_notes(None, 2)
                    try:
                        res = t2.add_notes(form, 8)
                        raised = None
                    except InstrumentRangeError as e:
                        raised = e
                    except Exception as e:  # any other error is wrong here
                        raised = e
                        check(False, "unexpected %r for %s-%d" % (e, name, octave))
                    if inside:
                        check(raised is None and res, "%s-%d should be playable on %r" % (name, octave, t2.instrument))
                        check(entries(t2) == [(2, None), (8, [(name, octave)])], "accepted note not stored")
                    else:
                        check(isinstance(raised, InstrumentRangeError), "%s-%d should be out of range of %r" % (name, octave, t2.instrument))
                        check(entries(t2) == [(2, None)], "refused note changed the track")
                check(entries(t) == before, "untouched")
    # a chord with one note outside is refused as a whole
    t = Track(Guitar())
    try:
        t.add_notes(["E-4", "E-2"], 4)
        check(False, "chord with a note below the guitar accepted")
    except InstrumentRangeError:
        pass
    check(entries(t) == [], "refused chord changed the track")
    check(t.add_notes(["E-4", "B-4"], 4), "playable chord refused")


# ---------------------------------------------------------------- clause 3
CHORDS = {
    "C": ["C", "E", "G"], "Am": ["A", "C", "E"], "G7": ["G", "B", "D", "F"], "F": ["F", "A", "C"],
    "Dm": ["D", "F", "A"], "Em": ["E", "G", "B"], "Cmaj7": ["C", "E", "G", "B"], "D7": ["D", "F#", "A", "C"],
}


def flatten(chords, value, out):
    for c in chords:
        if isinstance(c, list):
            flatten(c, value * 2, out)
        else:
            out.append((c, Fraction(1, value) if isinstance(value, int) else Fraction(1.0 / value).limit_denominator(960)))
    return out


def names_of(c):
    return None if c is None else sorted(n.name for n in c)


def check_from_chords(seed, rounds=200):
    rng = random.Random(seed)

    def mk(depth):
        if depth < 3 and rng.random() < 0.3:
            return [mk(depth + 1) for _ in range(rng.randint(1, 3))]
        return rng.choice(list(CHORDS) + [None, None])

    for r in range(rounds):
        meter = rng.choice([(4, 4), (3, 4), (6, 8), (5, 4), (2, 2), (2, 4)])
        cap = Fraction(*meter)
        value = rng.choice([1, 2, 4, 1, 2, 3, 4 / 1.5])
        t = Track()
        t.add_bar(Bar("G", meter))
        spec = [mk(0) for _ in range(rng.randint(1, 7))]
        ret = t.from_chords(spec, value)
        check(ret is t, "from_chords does not return the track")
        want = flatten(spec, value, [])
        if any(ln > cap for _, ln in want):
            # an item longer than a whole bar cannot be split in two: not looked at
            continue
        flat = [(length_of(e[1]), names_of(e[2])) for b in t for e in b]
        # consume the entries item by item; an item may be split over a bar line
        i = 0
        for name, ln in want:
            exp = None if name is None else sorted(CHORDS[name])
            got = Fraction(0)
            pieces = 0
            while got < ln and i < len(flat):
                check(flat[i][1] == exp, "from_chords: expected %r, found %r" % (exp, flat[i][1]))
                got += flat[i][0]
                i += 1
                pieces += 1
            check(got == ln, "from_chords: item %r has length %s, wanted %s" % (name, got, ln))
            check(pieces <= 2, "from_chords: item in more than two pieces")
        check(i == len(flat), "from_chords: extra entries")
        check(sum(f[0] for f in flat) == sum(w[1] for w in want), "from_chords: total length")
        for b in t.bars[:-1]:
            check(sum(length_of(e[1]) for e in b) == cap, "from_chords: inner bar not full")
            check(tuple(b.meter) == meter and keyname(b.key) == "G", "from_chords: bar key/meter")
        check(tuple(t[-1].meter) == meter and keyname(t[-1].key) == "G", "from_chords: last bar key/meter")
    # the documented example, and an explicit split: a whole note in 3/4
    t = Track().from_chords(["C", ["Am", "Dm"], "G7", None], 1)
    got = [(e[1], names_of(e[2])) for b in t for e in b]
    check(got == [(1, ["C", "E", "G"]), (2, ["A", "C", "E"]), (2, ["A", "D", "F"]), (1, ["B", "D", "F", "G"]), (1, None)], "from_chords example: %r" % got)
    t = Track()
    t.add_bar(Bar("C", (3, 4)))
    t.from_chords(["C", None], 1)
    got = [[(length_of(e[1]), names_of(e[2])) for e in b] for b in t]
    ceg = ["C", "E", "G"]
    check(got == [[(Fraction(3, 4), ceg)], [(Fraction(1, 4), ceg), (Fraction(1, 2), None)], [(Fraction(1, 2), None)]], "split in 3/4: %r" % got)


# ---------------------------------------------------------------- clause 4
def check_compositions(seed, rounds=150):
    rng = random.Random(seed)
    for r in range(rounds):
        c = Composition()
        n = rng.randint(1, 5)
        tracks = [Track() for _ in range(n)]
        for k, t in enumerate(tracks):
            c.add_track(t) if rng.random() < 0.5 else c + t
            check(len(c) == k + 1 and c[k] is t, "composition len/index after add_track")
        model = [[] for _ in range(n)]
        for step in range(rng.randint(1, 12)):
            sel = sorted(rng.sample(range(n), rng.randint(0, n)))
            c.selected_tracks = list(sel)
            item, cont = make_item(rng)
            if item is None or isinstance(item, list):
                item, cont = "D-4", [("D", 4)]
            c.add_note(item) if rng.random() < 0.5 else c + item
            for k in sel:
                model[k].append((4, cont))
            for k in range(n):
                check(entries(c[k]) == model[k], "composition: track %d holds %r, expected %r (selected %r)" % (k, entries(c[k]), model[k], sel))
        check([x for x in c] == tracks, "iterating a composition")
        # equality follows the contents
        d = Composition()
        for k in range(n):
            t = Track()
            for v, cont in model[k]:
                t.add_notes(["%s-%d" % p for p in cont], v)
            d.add_track(t)
            check(t == c[k] and not (t != c[k]), "equal tracks compare unequal")
        check(c == d and not (c != d), "equal compositions compare unequal")
        d[0].add_notes("F#-4", 8)
        check(not (d[0] == c[0]) and d[0] != c[0], "different tracks compare equal")
        check(c != d and not (c == d), "different compositions compare equal")
        e = Composition()
        for k in range(n - 1):
            e.add_track(c[k])
        check(e != c and len(e) == n - 1, "shorter composition compares equal")
    a, b = Track(), Track()
    check(a == b and len(a) == 0, "empty tracks")
    a.add_notes("C", 4)
    b.add_notes("C", 8)
    check(a != b, "tracks with different values compare equal")
    b = Track()
    b.add_notes(None, 4)
    check(a != b, "note equals rest")


def run_all():
    check_accumulation(11)
    check_accumulation(12, rounds=100)
    check_instruments()
    check_from_chords(21)
    check_compositions(31)


def finish():
    if FAILS:
        for f in FAILS[:20]:
            print("FAIL:", f)
        print("FAIL (%d checks)" % len(FAILS))
        sys.exit(1)
    print("PASS")
    sys.exit(0)


# ---------------------------------------------------------------- what the change alters
def observed():
    t = Track()
    t.add_notes("C", 4)
    t.add_notes(None, 2)
    items = list(t.get_notes())
    print("OBSERVED: type of an item yielded by get_notes():", type(items[0]).__name__)
    print("OBSERVED: first item: %r" % (items[0],))
    print("OBSERVED: list(t.get_notes()) == [entry for bar in t for entry in bar]:", items == [e for b in t for e in b])
    print("OBSERVED: items are the stored entries themselves:", items[0] is t[0][0])


if __name__ == "__main__":
    run_all()
    observed()
    finish()
