"""Demo for property C17 (MIDI write / read round trip).

(i)  checks the clauses of the property on a sample of inputs, with the
     expected values derived from the description of the music itself
     (lists of (value, pitches) that this program builds), from arithmetic
     and from the SMF format - prints PASS / FAIL, exit code 0 / 1.
(ii) prints OBSERVED: lines showing behaviour the property does not state.

The tree under test is chosen by the caller through PYTHONPATH.
"""
from __future__ import print_function

import io
import os
import random
import sys
import tempfile
from fractions import Fraction

from mingus.containers import Bar, Composition, Note, NoteContainer, Track
from mingus.containers.instrument import MidiInstrument
from mingus.midi import midi_file_in, midi_file_out
from mingus.midi.midi_track import MidiTrack

TMP = tempfile.mkdtemp(prefix="c17demo")
PATH = os.path.join(TMP, "t.mid")
failures = []

NAMES = ["C", "C#", "D", "D#", "E", "F", "F#", "G", "G#", "A", "A#", "B"]
WHOLE = 288  # a whole note counted in units of 1/288 (exact for all values used)


def check(cond, msg):
    if not cond:
        failures.append(msg)


def make_note(pitch, velocity, channel):
    """pitch is a MIDI key number; C-4 in mingus is MIDI key 60."""
    n = Note(NAMES[pitch % 12], pitch // 12 - 1)
    n.velocity = velocity
    n.channel = channel
    return n


def ticks_of(value):
    """Length of a note value in 1/288 of a whole note."""
    f = Fraction(WHOLE) / Fraction(value).limit_denominator(10000)
    r = int(round(f))
    return r


def build(spec):
    """spec: list of tracks; track = dict(name, instr, key, meter, bars);
    bars = list of lists of (value, [(pitch, vel, chan), ...])."""
    c = Composition()
    for ts in spec:
        t = Track()
        if ts.get("name") is not None:
            t.name = ts["name"]
        if ts.get("instr") is not None:
            i = MidiInstrument()
            i.instrument_nr = ts["instr"]
            t.instrument = i
        for bs in ts["bars"]:
            b = Bar(ts["key"], ts["meter"])
            for value, chord in bs:
                nc = NoteContainer([make_note(*x) for x in chord])
                ok = b.place_notes(nc, value)
                assert ok, (ts["meter"], bs)
            t.add_bar(b)
        c.add_track(t)
    return c


def normalise(seq):
    """seq: list of (ticks, {pitch: (vel, chan)}); merge adjacent rests and
    drop trailing rests."""
    out = []
    for ticks, notes in seq:
        if not notes and out and not out[-1][1]:
            out[-1] = (out[-1][0] + ticks, {})
        else:
            out.append((ticks, dict(notes)))
    while out and not out[-1][1]:
        out.pop()
    return out


def expected_of(ts):
    seq = []
    for bs in ts["bars"]:
        for value, chord in bs:
            seq.append((ticks_of(value), dict((p, (v, ch)) for p, v, ch in chord)))
    return normalise(seq)


def observed_of(track):
    seq = []
    for bar in track.bars:
        for beat, value, nc in bar.bar:
            notes = {}
            for n in nc or []:
                notes[int(n) + 12] = (n.velocity, n.channel)
            seq.append((ticks_of(value), notes))
    return normalise(seq)


def round_trip(spec, bpm=120):
    c = build(spec)
    midi_file_out.write_Composition(PATH, c, bpm)
    return midi_file_in.MIDI_to_Composition(PATH)


METERS = [(4, 4), (3, 4), (2, 4), (6, 8), (2, 2), (5, 4), (7, 8)]
VALUES = [1, 2, 4, 8, 16, 32, 3, 6, 12, 24, Fraction(4, 3), Fraction(8, 3), Fraction(16, 3)]
MAJOR = ["Cb", "Gb", "Db", "Ab", "Eb", "Bb", "F", "C", "G", "D", "A", "E", "B", "F#", "C#"]
MINOR = ["ab", "eb", "bb", "f", "c", "g", "d", "a", "e", "b", "f#", "c#", "g#", "d#", "a#"]


def random_bar(rng, meter, rest_prob):
    length = Fraction(meter[0], meter[1])
    used = Fraction(0)
    entries = []
    while used < length:
        fits = [v for v in VALUES if used + 1 / Fraction(v) <= length]
        if not fits:
            break
        v = rng.choice(fits)
        if rng.random() < rest_prob:
            chord = []
        else:
            pitches = rng.sample(range(24, 108), rng.choice([1, 1, 1, 2, 3, 4]))
            chord = [(p, rng.randint(1, 127), rng.randint(0, 15)) for p in pitches]
        entries.append((float(v) if isinstance(v, Fraction) else v, chord))
        used += 1 / Fraction(v)
        if rng.random() < 0.1:
            break  # bars need not be full
    return entries


def random_spec(rng):
    spec = []
    for ti in range(rng.randint(1, 4)):
        meter = rng.choice(METERS)
        bars = [random_bar(rng, meter, rng.choice([0.0, 0.2, 0.5])) for _ in range(rng.randint(1, 5))]
        # the first bar starts with a note and no bar is silent: keeps the
        # sample well inside what every version of the reader copes with
        for b in bars:
            if not any(ch for _, ch in b):
                v, _ = b[0]
                b[0] = (v, [(60, 64, 0)])
        spec.append(
            dict(
                name="trk %d" % ti if rng.random() < 0.8 else None,
                instr=rng.randint(0, 127) if rng.random() < 0.7 else None,
                key=rng.choice(MAJOR + MINOR),
                meter=meter,
                bars=bars,
            )
        )
    return spec


def check_spec(spec, tag, bpm=120):
    (comp, got_bpm) = round_trip(spec, bpm)
    check(got_bpm == bpm, "%s: bpm %r != %r" % (tag, got_bpm, bpm))
    check(len(comp.tracks) == len(spec), "%s: track count" % tag)
    for ts, tr in zip(spec, comp.tracks):
        exp = expected_of(ts)
        got = observed_of(tr)
        check(exp == got, "%s: sequence differs\n  exp %r\n  got %r" % (tag, exp, got))
        if ts.get("name") is not None:
            check(tr.name == ts["name"], "%s: name %r" % (tag, tr.name))
        if ts.get("instr") is not None:
            check(
                getattr(tr.instrument, "instrument_nr", None) == ts["instr"],
                "%s: instrument" % tag,
            )
        tonic = ts["key"]
        mode = "minor" if tonic[0].islower() else "major"
        for bar in tr.bars:
            check(tuple(bar.meter) == tuple(ts["meter"]), "%s: meter %r" % (tag, bar.meter))
            check(bar.key.key == tonic and bar.key.mode == mode, "%s: key %r" % (tag, bar.key.key))
    return comp


# ---- clause 1-3: round trip of systematic and random compositions ---------
rng = random.Random(1717)
simple = [
    dict(
        name="melody",
        instr=40,
        key="C",
        meter=(4, 4),
        bars=[
            [(4, [(60, 100, 0)]), (4, [(62, 90, 1)]), (4, []), (4, [(64, 80, 2), (67, 70, 3)])],
            [(2, [(65, 1, 15)]), (8, []), (8, []), (4, [(59, 127, 9)])],
        ],
    )
]
check_spec(simple, "simple")
for k in range(150):
    check_spec(random_spec(rng), "random %d" % k)

# all 30 keys, several meters
for key in MAJOR + MINOR:
    for meter in [(4, 4), (3, 4), (6, 8)]:
        spec = [
            dict(
                name="k " + key,
                instr=5,
                key=key,
                meter=meter,
                bars=[[(meter[1], [(60 + i, 64, 0)]) for i in range(meter[0])] for _ in range(3)],
            )
        ]
        check_spec(spec, "key %s %r" % (key, meter))

# instrument numbers 0..127
for nr in range(128):
    spec = [dict(name="i", instr=nr, key="C", meter=(4, 4), bars=[[(4, [(60, 64, 0)])]])]
    check_spec(spec, "instr %d" % nr)

# ---- clause: tempo for every bpm 4..1000 ----------------------------------
one = [dict(name="t", instr=None, key="C", meter=(4, 4), bars=[[(4, [(60, 64, 0)])]])]
comp_one = build(one)
for bpm in range(4, 1001):
    midi_file_out.write_Composition(PATH, comp_one, bpm)
    (_, got) = midi_file_in.MIDI_to_Composition(PATH)
    check(got == bpm, "bpm %d came back as %r" % (bpm, got))

# ---- clause: variable length quantities -----------------------------------
vals = set()
for k in (0, 7, 14, 21, 28):
    for d in range(-70, 71):
        v = (1 << k) + d
        if 0 <= v < (1 << 28):
            vals.add(v)
vals.update(rng.randrange(1 << 28) for _ in range(3000))
mt = MidiTrack()
rd = midi_file_in.MidiFile()
for v in sorted(vals):
    enc = mt.int_to_varbyte(v)
    dec = rd.parse_varbyte_as_int(io.BytesIO(bytes(enc) + b"\x55"))
    got = dec[0] if isinstance(dec, (tuple, list)) else dec
    check(got == v, "VLQ %d -> %r -> %r" % (v, enc, dec))

# ---- clause: things that are not MIDI are rejected ------------------------
midi_file_out.write_Composition(PATH, build(simple), 120)
good = open(PATH, "rb").read()
assert good[:4] == b"MThd" and good[14:18] == b"MTrk"
bad_files = {
    "bad header tag": b"MThx" + good[4:],
    "riff": b"RIFF" + good[4:],
    "bad track tag": good[:14] + b"MTrx" + good[18:],
    "format 3": good[:8] + b"\x00\x03" + good[10:],
    "format 65535": good[:8] + b"\xff\xff" + good[10:],
    "text": b"this is not a midi file at all, sorry\n" * 4,
}
for tag, data in bad_files.items():
    p = os.path.join(TMP, "bad.mid")
    with open(p, "wb") as f:
        f.write(data)
    try:
        res = midi_file_in.MIDI_to_Composition(p)
    except Exception:
        pass
    else:
        check(False, "%s: returned %r instead of raising" % (tag, res))


# ---- (ii) behaviour outside the statement ---------------------------------
def observed():
    (comp, _) = round_trip(simple)
    vals = [entry[1] for bar in comp.tracks[0].bars for entry in bar.bar]
    print("OBSERVED: values of the entries read back: %r" % (vals,))
    print("OBSERVED: types of those values: %r" % (sorted(set(type(v).__name__ for v in vals)),))
    print("OBSERVED: repr of the first bar read back: %r" % (comp.tracks[0].bars[0],))


observed()

if failures:
    print("FAIL (%d)" % len(failures))
    for f in failures[:10]:
        print("  " + f)
    sys.exit(1)
print("PASS")
sys.exit(0)
