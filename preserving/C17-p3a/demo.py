"""Demo for C17 / change a: MidiTrack.int_to_varbyte rewritten as an integer shift loop
that refuses numbers a MIDI variable length quantity cannot hold (negative, > 0x0FFFFFFF).

(i) checks the clauses of property C17 from first principles, prints PASS / FAIL;
(ii) prints OBSERVED lines showing what the change alters (numbers just outside 0..2**28-1).
"""
"""Property C17 checks shared by both demos (copied into each demo.py)."""
import io, os, random, struct, sys, tempfile
from fractions import Fraction

from mingus.containers import Bar, Composition, Note, NoteContainer, Track
from mingus.containers.instrument import MidiInstrument
from mingus.midi import midi_file_in, midi_file_out
from mingus.midi.midi_track import MidiTrack

FAIL = []


def check(cond, msg):
    if not cond:
        FAIL.append(msg)


TMP = tempfile.mkdtemp(prefix="c17demo")


def tmpname(tag):
    return os.path.join(TMP, tag + ".mid")


# ---------------------------------------------------------------- flattening
def flatten(track):
    """[(length as a fraction of a whole note, frozenset((pitch, channel, velocity)))]
    over all bars; adjacent rests merged, trailing rests dropped."""
    seq = []
    for bar in track.bars:
        for (_beat, value, cont) in bar.bar:
            length = Fraction(1.0 / value).limit_denominator(4096)
            if cont is None or len(cont) == 0:
                notes = frozenset()
            else:
                notes = frozenset((int(n), n.channel, n.velocity) for n in cont)
            if not notes and seq and not seq[-1][1]:
                seq[-1] = (seq[-1][0] + length, notes)
            else:
                seq.append((length, notes))
    while seq and not seq[-1][1]:
        seq.pop()
    return seq


# spec: list of tracks; track = dict(name, instr, key, meter, bars=[[(value, [(name, octave, ch, vel)...])...]])
def build(spec):
    c = Composition()
    expected = []
    for ts in spec:
        t = Track()
        if ts.get("name") is not None:
            t.name = ts["name"]
        if ts.get("instr") is not None:
            i = MidiInstrument()
            i.instrument_nr = ts["instr"]
            t.instrument = i
        exp = []
        for entries in ts["bars"]:
            b = Bar(ts["key"], ts["meter"])
            for (value, chord) in entries:
                if chord:
                    nc = NoteContainer()
                    for (nm, octv, ch, vel) in chord:
                        n = Note(nm, octv)
                        n.channel = ch
                        n.velocity = vel
                        nc + n
                    ok = b.place_notes(nc, value)
                else:
                    ok = b.place_rest(value)
                assert ok, (entries, value)
                # expectation from first principles: value v lasts 1/v of a whole note;
                # MIDI key number = 12 * (octave + 1) + semitone
                sem = {"C": 0, "D": 2, "E": 4, "F": 5, "G": 7, "A": 9, "B": 11}
                pit = frozenset(
                    (12 * (o + 1) + sem[nm[0]] + nm.count("#") - nm.count("b") - 12, ch, vel)
                    for (nm, o, ch, vel) in chord
                )
                ln = Fraction(1) / Fraction(value).limit_denominator(4096)
                if not pit and exp and not exp[-1][1]:
                    exp[-1] = (exp[-1][0] + ln, pit)
                else:
                    exp.append((ln, pit))
            t + b
        while exp and not exp[-1][1]:
            exp.pop()
        expected.append(exp)
        c.add_track(t)
    return c, expected


def roundtrip_check(spec, bpm, tag):
    c, expected = build(spec)
    fn = tmpname(tag)
    check(midi_file_out.write_Composition(fn, c, bpm) is not False, tag + ": write failed")
    c2, bpm2 = midi_file_in.MIDI_to_Composition(fn)
    check(bpm2 == bpm, "%s: bpm %r -> %r" % (tag, bpm, bpm2))
    check(len(c2.tracks) == len(spec), "%s: track count" % tag)
    for k, (ts, exp, t2) in enumerate(zip(spec, expected, c2.tracks)):
        got = flatten(t2)
        check(got == exp, "%s: track %d sequence differs\n  exp %r\n  got %r" % (tag, k, exp, got))
        if ts.get("name") is not None:
            check(t2.name == ts["name"], "%s: track name %r -> %r" % (tag, ts["name"], t2.name))
        if ts.get("instr") is not None and any(ch for bar in ts["bars"] for (_v, ch) in bar):
            # the program change is written together with the first note of the track
            check(
                getattr(t2.instrument, "instrument_nr", None) == ts["instr"],
                "%s: instrument %r" % (tag, ts["instr"]),
            )
        tonic, mode = ts["key"], ("minor" if ts["key"][0].islower() else "major")
        check(len(t2.bars) >= 1, tag + ": no bars")
        for b2 in t2.bars:
            check(tuple(b2.meter) == tuple(ts["meter"]), "%s: meter %r -> %r" % (tag, ts["meter"], b2.meter))
            check(b2.key.key == tonic and b2.key.mode == mode, "%s: key %r -> %r" % (tag, ts["key"], b2.key.key))
    return fn
VALUES = [1, 2, 4, 8, 16, 32, 3, 6, 12, 24, 4 / 1.5, 8 / 1.5, 2 / 1.5, 16 / 1.5]
NAMES = ["C", "C#", "Db", "D", "D#", "Eb", "E", "F", "F#", "Gb", "G", "G#", "Ab", "A", "A#", "Bb", "B"]
SEM = {"C": 0, "D": 2, "E": 4, "F": 5, "G": 7, "A": 9, "B": 11}
MAJOR = ["Cb", "Gb", "Db", "Ab", "Eb", "Bb", "F", "C", "G", "D", "A", "E", "B", "F#", "C#"]
MINOR = ["ab", "eb", "bb", "f", "c", "g", "d", "a", "e", "b", "f#", "c#", "g#", "d#", "a#"]
METERS = [(4, 4), (3, 4), (2, 4), (6, 8), (5, 4), (2, 2), (12, 8), (7, 8)]


def random_chord(rng):
    n = rng.choice([1, 1, 1, 2, 3, 4])
    chord, seen = [], set()
    while len(chord) < n:
        nm, o = rng.choice(NAMES), rng.randint(1, 7)
        p = 12 * o + SEM[nm[0]] + nm.count("#") - nm.count("b")
        if p in seen:
            continue
        seen.add(p)
        chord.append((nm, o, rng.randint(0, 15), rng.randint(1, 127)))
    return chord


def random_spec(rng):
    spec = []
    for _ in range(rng.randint(1, 4)):
        meter = rng.choice(METERS)
        key = rng.choice(MAJOR + MINOR)
        length = Fraction(meter[0], meter[1])
        bars = []
        for _b in range(rng.randint(1, 5)):
            room, entries = length, []
            while room > 0 and rng.random() < 0.93:
                fits = [v for v in VALUES if Fraction(1) / Fraction(v).limit_denominator(4096) <= room]
                if not fits:
                    break
                v = rng.choice(fits)
                room -= Fraction(1) / Fraction(v).limit_denominator(4096)
                entries.append((v, random_chord(rng) if rng.random() < 0.75 else []))
            bars.append(entries)
        spec.append(
            dict(
                name=rng.choice([None, "Piano", "Lead 1", "x" * 130, "bass-line"]),
                instr=rng.choice([None, 0, 1, 13, 64, 127]),
                key=key,
                meter=meter,
                bars=bars,
            )
        )
    return spec
# ---------------------------------------------------------------- a tiny independent SMF reader
def ref_vlq(n):
    """Variable-length quantity as the SMF specification defines it."""
    out = [n & 0x7F]
    n >>= 7
    while n:
        out.insert(0, (n & 0x7F) | 0x80)
        n >>= 7
    return bytes(out)


def smf_tracks(fn):
    """Return (format, ntracks, division, [[(delta, kind, data)...]...]) read per the SMF spec."""
    data = open(fn, "rb").read()
    assert data[:4] == b"MThd"
    hlen, fmt, ntr, div = struct.unpack(">IHHH", data[4:14])
    pos, tracks = 8 + hlen, []
    while pos < len(data):
        assert data[pos : pos + 4] == b"MTrk"
        (ln,) = struct.unpack(">I", data[pos + 4 : pos + 8])
        pos += 8
        end, ev, status = pos + ln, [], None
        while pos < end:
            delta = 0
            while True:
                byte = data[pos]
                pos += 1
                delta = (delta << 7) | (byte & 0x7F)
                if not byte & 0x80:
                    break
            if data[pos] & 0x80:
                status = data[pos]
                pos += 1
            if status == 0xFF:
                mtype = data[pos]
                pos += 1
                mlen = 0
                while True:
                    byte = data[pos]
                    pos += 1
                    mlen = (mlen << 7) | (byte & 0x7F)
                    if not byte & 0x80:
                        break
                ev.append((delta, "meta%02x" % mtype, data[pos : pos + mlen]))
                pos += mlen
            else:
                n = 1 if status >> 4 in (0xC, 0xD) else 2
                ev.append((delta, "ch%02x" % status, data[pos : pos + n]))
                pos += n
        assert pos == end, "track chunk length does not match its content"
        tracks.append(ev)
    return fmt, ntr, div, tracks


def property_checks():
    # 1. notes / rests / channel / velocity / names / instruments / meter / key: random compositions
    rng = random.Random(1717)
    for i in range(150):
        roundtrip_check(random_spec(rng), rng.randint(4, 1000), "rnd%d" % i)

    # 2. systematic: every value alone and followed by a rest, rests first, rests across bar lines
    q = lambda nm="C", o=4, ch=0, vel=64: [(nm, o, ch, vel)]
    for v in VALUES:
        spec = [dict(name="sys", instr=5, key="C", meter=(4, 4), bars=[[(v, q())], [(v, [])], [(v, q("E", 5, 3, 1))]])]
        roundtrip_check(spec, 120, "val")
    spec = [
        dict(name="rests", instr=None, key="D", meter=(3, 4),
             bars=[[(4, []), (4, q()), (4, [])], [(2, []), (4, q("G", 2, 15, 127))], [(4, q("A", 6, 9, 100)), (2, [])], [(4, [])]]),
        dict(name=None, instr=127, key="f#", meter=(4, 4),
             bars=[[(1, [])], [(4, q("B", 1)), (4, q("B", 1) + q("D", 2, 1, 2) + q("F#", 7, 2, 3))]]),
    ]
    roundtrip_check(spec, 97, "rests")

    # 3. all 30 keys
    for k in MAJOR + MINOR:
        spec = [dict(name="k", instr=1, key=k, meter=(6, 8), bars=[[(8, q())] * 6, [(8, q("D"))] * 6])]
        roundtrip_check(spec, 120, "key_" + k.replace("#", "s"))

    # 4. every integer bpm 4..1000
    spec = [dict(name=None, instr=None, key="C", meter=(4, 4), bars=[[(4, q())]])]
    for bpm in range(4, 1001):
        roundtrip_check(spec, bpm, "bpm")

    # 5. variable-length quantities: writer matches the SMF definition, reader inverts it
    mt, rd = MidiTrack(), midi_file_in.MidiFile()
    vals = set([0, 1, 2 ** 28 - 1])
    for e in (7, 14, 21, 28):
        vals.update(range(max(0, 2 ** e - 300), min(2 ** 28, 2 ** e + 300)))
    r2 = random.Random(5)
    vals.update(r2.randrange(2 ** 28) for _ in range(3000))
    for v in sorted(vals):
        enc = mt.int_to_varbyte(v)
        check(bytes(enc) == ref_vlq(v), "vlq writer %d -> %r" % (v, enc))
        got = rd.parse_varbyte_as_int(io.BytesIO(bytes(enc) + b"\x55"))
        got = got[0] if isinstance(got, tuple) else got
        check(got == v, "vlq reader %d -> %r" % (v, got))

    # 6. files that are not MIDI are rejected with an error
    good = open(roundtrip_check(spec, 120, "good"), "rb").read()
    tpos = good.index(b"MTrk")
    bad = {
        "badtag": b"MThx" + good[4:],
        "riff": b"RIFF" + good[4:],
        "badtrk": good[:tpos] + b"MTrx" + good[tpos + 4 :],
        "fmt3": good[:8] + b"\x00\x03" + good[10:],
        "fmt65535": good[:8] + b"\xff\xff" + good[10:],
        "text": b"this is not a MIDI file at all, just some text\n",
    }
    for tag, blob in bad.items():
        fn = tmpname("bad_" + tag)
        open(fn, "wb").write(blob)
        try:
            res = midi_file_in.MIDI_to_Composition(fn)
            check(False, "corrupt file %s accepted: %r" % (tag, res))
        except Exception:
            pass


def observed():
    mt = MidiTrack()
    for v in (2 ** 28, 2 ** 28 + 1, 2 ** 35, -1, -200):
        try:
            res = "bytes " + bytes(mt.int_to_varbyte(v)).hex()
        except Exception as e:
            res = "%s: %s" % (type(e).__name__, e)
        print("OBSERVED: int_to_varbyte(%d) -> %s" % (v, res))
    try:
        mt.set_deltatime(-72)
        res = "delta_time = " + bytes(mt.delta_time).hex()
    except Exception as e:
        res = "%s: %s" % (type(e).__name__, e)
    print("OBSERVED: set_deltatime(-72) -> %s" % res)
    import mingus.midi.midi_track as m
    print("OBSERVED: midi_track.MAX_VARBYTE = %r" % (getattr(m, "MAX_VARBYTE", "<not defined>"),))


if __name__ == "__main__":
    property_checks()
    observed()
    if FAIL:
        for f in FAIL[:20]:
            print("FAIL:", f)
        print("FAIL (%d)" % len(FAIL))
        sys.exit(1)
    print("PASS")
    sys.exit(0)
