"""Demo for C07 / change a: intervals.determine refuses non-notes with NoteFormatError.

(i)  checks the clauses of property C07 on a sample, with expectations stated
     from first principles (documented chord on C, transposed by interval
     arithmetic; ordinal words; interval names) -> prints PASS / FAIL.
(ii) prints OBSERVED: lines showing what the change alters (invalid note names).
"""
from __future__ import print_function

import random
import sys

from mingus.core import chords, intervals

LETTERS = "CDEFGAB"
NATURAL = {"C": 0, "D": 2, "E": 4, "F": 5, "G": 7, "A": 9, "B": 11}


def pitch(note):
    return (NATURAL[note[0]] + note.count("#") - note.count("b")) % 12


def transpose(note_on_c, root):
    """The note that lies as far above root as note_on_c lies above C
    (same number of letter steps, same number of semitones)."""
    steps = LETTERS.index(note_on_c[0])
    semis = pitch(note_on_c)
    letter = LETTERS[(LETTERS.index(root[0]) + steps) % 7]
    want = (pitch(root) + semis) % 12
    diff = (want - NATURAL[letter]) % 12
    if diff > 6:
        diff -= 12
    return letter + ("#" * diff if diff > 0 else "b" * -diff)


# shorthand -> (documented chord on C, English name of the chord)
ON_C = {
    "m": ("C Eb G", "minor triad"),
    "M": ("C E G", "major triad"),
    "": ("C E G", "major triad"),
    "dim": ("C Eb Gb", "diminished triad"),
    "aug": ("C E G#", "augmented triad"),
    "+": ("C E G#", "augmented triad"),
    "7#5": ("C E G# Bb", "augmented minor seventh"),
    "M7+5": ("C E G# Bb", "augmented minor seventh"),
    "m7+": ("C E G# Bb", "augmented minor seventh"),
    "M7+": ("C E G# B", "augmented major seventh"),
    "7+": ("C E G# B", "augmented major seventh"),
    "sus47": ("C F G Bb", "suspended seventh"),
    "7sus4": ("C F G Bb", "suspended seventh"),
    "sus4": ("C F G", "suspended fourth triad"),
    "sus": ("C F G", "suspended fourth triad"),
    "sus2": ("C D G", "suspended second triad"),
    "11": ("C G Bb F", "eleventh"),
    "add11": ("C G Bb F", "eleventh"),
    "sus4b9": ("C F G Db", "suspended fourth ninth"),
    "susb9": ("C F G Db", "suspended fourth ninth"),
    "m7": ("C Eb G Bb", "minor seventh"),
    "M7": ("C E G B", "major seventh"),
    "7": ("C E G Bb", "dominant seventh"),
    "dom7": ("C E G Bb", "dominant seventh"),
    "m7b5": ("C Eb Gb Bb", "half diminished seventh"),
    "dim7": ("C Eb Gb Bbb", "diminished seventh"),
    "m/M7": ("C Eb G B", "minor/major seventh"),
    "mM7": ("C Eb G B", "minor/major seventh"),
    "m6": ("C Eb G A", "minor sixth"),
    "M6": ("C E G A", "major sixth"),
    "6": ("C E G A", "major sixth"),
    "6/7": ("C E G A Bb", "dominant sixth"),
    "67": ("C E G A Bb", "dominant sixth"),
    "6/9": ("C E G A D", "sixth ninth"),
    "69": ("C E G A D", "sixth ninth"),
    "9": ("C E G Bb D", "dominant ninth"),
    "add9": ("C E G Bb D", "dominant ninth"),
    "7b9": ("C E G Bb Db", "dominant flat ninth"),
    "7#9": ("C E G Bb D#", "dominant sharp ninth"),
    "M9": ("C E G B D", "major ninth"),
    "m9": ("C Eb G Bb D", "minor ninth"),
    "7#11": ("C E G Bb F#", "lydian dominant seventh"),
    "m11": ("C Eb G Bb F", "minor eleventh"),
    "M11": ("C E G B D F", "major eleventh"),
    "M13": ("C E G B D A", "major thirteenth"),
    "m13": ("C Eb G Bb D A", "minor thirteenth"),
    "13": ("C E G Bb D A", "dominant thirteenth"),
    "add13": ("C E G Bb D A", "dominant thirteenth"),
    "7b5": ("C E Gb Bb", "dominant flat five"),
    "hendrix": ("C E G Bb Eb", "hendrix chord"),
    "7b12": ("C E G Bb Eb", "hendrix chord"),
}
ORDINAL = ["", ", first inversion", ", second inversion", ", third inversion",
           ", fourth inversion", ", fifth inversion", ", sixth inversion"]

NOTES21 = [l + a for l in LETTERS for a in ("", "#", "b")]
DOUBLE = ["C##", "Fbb", "G##", "Bbb", "E##", "Dbb"]

failures = []


def fail(msg):
    failures.append(msg)
    if len(failures) <= 15:
        print("FAIL:", msg)


def root_of(name):
    r = name[0]
    for c in name[1:]:
        if c in "#b":
            r += c
        else:
            break
    return r


def check_names_constructible(short, where):
    for name in short:
        for half in name.split("|"):
            try:
                built = chords.from_shorthand(half)
            except Exception as e:  # noqa
                fail("%s: name %r not accepted by from_shorthand (%s)" % (where, half, e))
                continue
            if not isinstance(built, list) or not built:
                fail("%s: name %r builds %r" % (where, half, built))


def check_recognition():
    n = 0
    for sh, (on_c, english) in sorted(ON_C.items()):
        for root in NOTES21 + DOUBLE:
            chord = [transpose(x, root) for x in on_c.split()]
            try:
                built = chords.from_shorthand(root + sh)
            except Exception as e:  # noqa
                fail("from_shorthand(%r) raised %r" % (root + sh, e))
                continue
            if built != chord:
                fail("from_shorthand(%r) = %r, expected %r" % (root + sh, built, chord))
                continue
            for k in range(len(chord)):
                rot = chord[k:] + chord[:k]
                where = "%s%s rotation %d %r" % (root, sh, k, rot)
                try:
                    short = chords.determine(list(rot), True)
                    long_ = chords.determine(list(rot), False)
                except Exception as e:  # noqa
                    fail("%s: determine raised %r" % (where, e))
                    continue
                n += 1
                if len(short) != len(long_):
                    fail("%s: lengths differ %r %r" % (where, short, long_))
                    continue
                check_names_constructible(short, where)
                hits = [i for i, nm in enumerate(short)
                        if "|" not in nm and chords.from_shorthand(nm) == chord]
                if not hits:
                    fail("%s: no name rebuilding the chord in %r" % (where, short))
                    continue
                want_long = root + " " + english + ORDINAL[k]
                if not any(long_[i] == want_long for i in hits):
                    fail("%s: long form %r lacks %r at position(s) %r"
                         % (where, long_, want_long, hits))
                # same order: every long entry talks about the same root as the
                # shorthand entry at the same position
                for s, l in zip(short, long_):
                    if "|" in s:
                        if s not in l:
                            fail("%s: polychord %r vs long %r" % (where, s, l))
                    elif not l.startswith(root_of(s) + " "):
                        fail("%s: order differs: %r vs %r" % (where, s, l))
    return n


def check_three_note_inputs():
    n = 0
    for a in NOTES21:
        for b in NOTES21:
            for c in NOTES21:
                given = [a, b, c]
                try:
                    short = chords.determine(list(given), True)
                    long_ = chords.determine(list(given), False)
                except Exception as e:  # noqa
                    fail("determine(%r) raised %r" % (given, e))
                    continue
                n += 1
                if len(short) != len(long_):
                    fail("%r: lengths differ" % (given,))
                for name in short:
                    try:
                        built = chords.from_shorthand(name)
                    except Exception as e:  # noqa
                        fail("%r: name %r not constructible (%s)" % (given, name, e))
                        continue
                    if not set(given) <= set(built):
                        fail("%r: %r = %r does not contain the given notes"
                             % (given, name, built))
    return n


def check_trivial():
    if chords.determine([]) != [] or chords.determine([], True) != []:
        fail("empty chord")
    for x in ["C", "F#", "Bb", "E##"]:
        if chords.determine([x]) != [x] or chords.determine([x], True) != [x]:
            fail("one-note chord %r" % x)
    two = {
        ("C", "E"): "major third", ("C", "Eb"): "minor third",
        ("C", "G"): "perfect fifth", ("C", "F"): "perfect fourth",
        ("D", "C#"): "major seventh", ("D", "C"): "minor seventh",
        ("F", "B"): "augmented fourth", ("E", "F#"): "major second",
        ("E", "F"): "minor second", ("Ab", "F"): "major sixth",
        ("A", "F"): "minor sixth", ("C", "D#"): "augmented second",
        ("C", "Bbb"): "diminished seventh",
    }
    for (x, y), name in two.items():
        if chords.determine([x, y]) != [name]:
            fail("two-note chord %r: %r, expected %r"
                 % ([x, y], chords.determine([x, y]), [name]))
        if len(chords.determine([x, y], True)) != 1:
            fail("two-note chord %r, shorthand form" % ([x, y],))


def check_sampled_big():
    rnd = random.Random(707)
    n = 0
    for _ in range(1500):
        size = rnd.randint(4, 7)
        given = [rnd.choice(NOTES21) for _ in range(size)]
        try:
            short = chords.determine(list(given), True)
            long_ = chords.determine(list(given), False)
        except Exception as e:  # noqa
            fail("determine(%r) raised %r" % (given, e))
            continue
        n += 1
        if len(short) != len(long_):
            fail("%r: lengths differ" % (given,))
        check_names_constructible(short, repr(given))
    return n


def attempt(f, *args):
    try:
        return "returns %r" % (f(*args),)
    except Exception as e:  # noqa
        return "raises %s: %s" % (type(e).__name__, e)


def observed():
    for args in [("C", "H"), ("H", "H#"), ("C", ""), ("c", "e")]:
        print("OBSERVED: intervals.determine%r %s" % (args, attempt(intervals.determine, *args)))
    for ch in [["C", "E", "H"], ["c", "e", "g"], ["C", "E", "G", ""], ["C", "x"]]:
        print("OBSERVED: chords.determine(%r) %s" % (ch, attempt(chords.determine, ch)))


def main():
    n1 = check_recognition()
    n2 = check_three_note_inputs()
    check_trivial()
    n3 = check_sampled_big()
    print("checked %d rotations, %d three-note inputs, %d sampled 4-7 note inputs"
          % (n1, n2, n3))
    observed()
    if failures:
        print("FAIL (%d problems)" % len(failures))
        return 1
    print("PASS")
    return 0


if __name__ == "__main__":
    sys.exit(main())
