"""Coverage-guided fuzzing driver (atheris / libFuzzer) for string- and byte-level input surfaces.

A property module declares   FUZZ = {target: (decode, check_name)}   where decode(fdp) turns libFuzzer bytes into a case
(or None to skip) and check_name names the ordinary check function, i.e. the semantic oracle runs inside the fuzz target.
atheris ends the process when the campaign ends, so each campaign runs in a child process that writes its statistics (and
the first violation, which also ends the campaign) to a JSON file; the parent merges them into its context.
"""
import json
import os
import subprocess
import sys
import tempfile

from vlib.core import REPO, VERIF_DIR, Ctx, HarnessError, Violation, jsonable, load_findings


def _deps():
    return os.path.join(VERIF_DIR, ".deps")


def available():
    try:
        sys.path.insert(0, _deps()) if _deps() not in sys.path else None
        import atheris  # noqa
        return True
    except Exception:  # noqa
        return False


def run(ctx, modname, target, runs, max_len=24):
    """run one campaign in a child process and merge its statistics into ctx"""
    if not available():
        ctx.label("fuzz:atheris-unavailable")
        return
    with tempfile.TemporaryDirectory(prefix="verif_fuzz_") as d:
        out = os.path.join(d, "stats.json")
        seed = (ctx.seed * 7919 + getattr(ctx, "shard", 0) * 104729 + 1) % (2 ** 31 - 1) or 1
        env = dict(os.environ, PYTHONPATH=os.pathsep.join([_deps(), REPO, VERIF_DIR]), PYTHONHASHSEED="0", PYTHONDONTWRITEBYTECODE="1",
                   VERIF_REPO=REPO)
        code = "from vlib import fuzz; fuzz.child(%r, %r, %d, %d, %d, %r, %r, %r)" % (modname, target, runs, seed, max_len, out, ctx.pid, ctx.tier)
        p = subprocess.run([sys.executable, "-W", "ignore", "-c", code], env=env, cwd=d, capture_output=True, text=True)
        if not os.path.exists(out):
            raise HarnessError("fuzz child produced no statistics (rc %s): %s" % (p.returncode, (p.stderr or p.stdout)[-600:]))
        st = json.load(open(out))
    ctx.evaluations += st["evaluations"]
    ctx.nontrivial |= set(st["nontrivial"])
    for k, v in st["classes"].items():
        ctx.classes[k] = ctx.classes.get(k, 0) + v
    ctx.classes["fuzz:%s:runs" % target] = ctx.classes.get("fuzz:%s:runs" % target, 0) + st["runs"]
    ctx.classes["fuzz:%s:distinct-inputs" % target] = st.get("corpus", 0)
    for s in st["samples"][:2]:
        if len(ctx.samples) < ctx.MAX_SAMPLES + 2:
            ctx.samples.append(s)
    if st.get("violation"):
        v = st["violation"]
        ctx._record(Violation(v["sig"], v["check"], v["case"], v["detail"]))
        ctx.suppressed.add(v["sig"])
    if st.get("error"):
        raise HarnessError("fuzz child error: %s" % st["error"])


def child(modname, target, runs, seed, max_len, out, pid, tier):
    import importlib
    import signal
    import traceback

    import atheris

    from vlib import core
    signal.signal(signal.SIGALRM, core._alarm)
    with atheris.instrument_imports(include=["mingus"]):
        mod = importlib.import_module(modname)
    decode, check_name = mod.FUZZ[target]
    fn = mod.CHECKS[check_name]
    ctx = Ctx(pid, tier, seed, load_findings(pid))
    state = {"runs": 0, "violation": None, "error": None, "distinct": set()}

    def dump():
        with open(out + ".tmp", "w") as f:
            json.dump({"evaluations": ctx.evaluations, "nontrivial": sorted(ctx.nontrivial), "classes": ctx.classes, "samples": ctx.samples,
                       "runs": state["runs"], "corpus": len(state["distinct"]), "violation": state["violation"], "error": state["error"]}, f, default=repr)
        os.replace(out + ".tmp", out)

    def one(data):
        state["runs"] += 1
        try:
            case = decode(atheris.FuzzedDataProvider(data))
            if case is not None:
                state["distinct"].add(hash(json.dumps(jsonable(case), sort_keys=True, default=repr)))
                ctx._guard(check_name, fn, case)
        except Violation as v:
            state["violation"] = {"sig": v.sig, "check": v.check, "case": jsonable(v.case), "detail": v.detail}
            dump()
            os._exit(0)
        except BaseException as e:  # noqa - harness trouble must not look like a finding
            state["error"] = "".join(traceback.format_exception(type(e), e, e.__traceback__))[-1500:]
            dump()
            os._exit(0)
        if state["runs"] % 2000 == 0 or state["runs"] >= runs:
            dump()

    dump()
    atheris.Setup([sys.argv[0], "-runs=%d" % runs, "-max_len=%d" % max_len, "-seed=%d" % seed, "-verbosity=0", "-print_final_stats=0"], one)
    atheris.Fuzz()
