"""mingus-facing helpers shared by the container / exporter checks (builders and observers only, no oracles)."""
from mingus.containers import Bar, Note, NoteContainer

FORMS = ["str", "note", "liststr", "listnote", "listpair", "nc"]


def build_content(form, notes):
    """turn [[name, octave], ...] into the argument form the API accepts"""
    if form == "bare":  # single bare name -> octave 4 in an empty container
        return notes[0][0]
    if form == "str":
        return "%s-%d" % (notes[0][0], notes[0][1])
    if form == "note":
        return Note(notes[0][0], notes[0][1])
    if form == "liststr":
        return ["%s-%d" % (n, o) for (n, o) in notes]
    if form == "listnote":
        return [Note(n, o) for (n, o) in notes]
    if form == "listpair":
        return [[n, o] for (n, o) in notes]
    if form == "nc":
        return NoteContainer(["%s-%d" % (n, o) for (n, o) in notes])
    raise ValueError(form)


def form_notes(form, notes):
    """the [[name, octave]] a form actually denotes (single-note forms use the first note only)"""
    if form == "bare":
        return [[notes[0][0], 4]]
    if form in ("str", "note"):
        return [list(notes[0])]
    return [list(n) for n in notes]


def nc_snapshot(nc):
    if nc is None:
        return None
    return [[n.name, n.octave] for n in nc.notes]


def bar_snapshot(bar):
    return [[e[0], e[1], nc_snapshot(e[2])] for e in bar.bar]


def track_snapshot(track):
    return [bar_snapshot(b) for b in track.bars]
