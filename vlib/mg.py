"""mingus-facing helpers shared by the container / exporter checks (builders and observers only, no oracles)."""
from mingus.containers import Bar, Note, NoteContainer

FORMS = ["str", "note", "liststr", "listnote", "listpair", "nc"]


def build_content(form, notes):
    """turn [[name, octave], ...] into the argument form the API accepts"""
    if form == "bare":  # single bare name -> octave 4 in an empty container
        return notes[0][0]
    if form == "str":
        return "%s-%d" % (notes[0][0], notes[0][1])
    if form == "note":
        return Note(notes[0][0], notes[0][1])
    if form == "liststr":
        return ["%s-%d" % (n, o) for (n, o) in notes]
    if form == "listnote":
        return [Note(n, o) for (n, o) in notes]
    if form == "listpair":
        return [[n, o] for (n, o) in notes]
    if form == "nc":
        return NoteContainer(["%s-%d" % (n, o) for (n, o) in notes])
    if form == "emptylist":  # a list without notes: becomes an empty container (a silent entry that is not None)
        return []
    if form == "emptync":
        return NoteContainer()
    raise ValueError(form)


def form_notes(form, notes):
    """the [[name, octave]] a form actually denotes (single-note forms use the first note only)"""
    if form == "bare":
        return [[notes[0][0], 4]]
    if form in ("emptylist", "emptync"):
        return []
    if form in ("str", "note"):
        return [list(notes[0])]
    return [list(n) for n in notes]


def nc_snapshot(nc):
    if nc is None:
        return None
    if not hasattr(nc, "notes"):
        return ["<not a note container: %s>" % type(nc).__name__]
    return [[n.name, n.octave] for n in nc.notes]


def bar_snapshot(bar):
    return [[e[0], e[1], nc_snapshot(e[2])] for e in bar.bar]


def track_snapshot(track):
    return [bar_snapshot(b) for b in track.bars]


# ---- R-score builders (public API only) ---------------------------------------------------------------

class BuildError(Exception):
    """the harness could not build the described music (never a verdict about mingus' exporters)"""


class UserChord(NoteContainer):
    """a user's own subclass of NoteContainer (the documented way to extend the containers): behaves exactly like its base"""


_USER_MIDI = []


def user_midi_instrument_class():
    from mingus.containers.instrument import MidiInstrument
    if not _USER_MIDI:
        class UserMidiInstrument(MidiInstrument):
            """a user's own MIDI instrument class ('subclass your own Instruments')"""
        _USER_MIDI.append(UserMidiInstrument)
    return _USER_MIDI[0]


def build_nc(notes, bpm=None, sub=False):
    if notes is None:
        return None
    try:
        objs = [Note(n[0], n[1], channel=n[2], velocity=n[3]) for n in notes]
        if len({int(o) for o in objs}) < len(objs):
            # two notes of one pitch under different names (C# and Db): the constructor would keep one of them only; such a chord
            # comes about by item assignment, so it is built that way (placeholders first)
            nc = (UserChord if sub else NoteContainer)([Note(i) for i in range(len(objs))])
            for i, o in enumerate(objs):
                nc[i] = o
        else:
            nc = (UserChord if sub else NoteContainer)(objs)
    except Exception as e:  # noqa
        raise BuildError("cannot build container %r: %r" % (notes, e))
    if len(nc) != len(notes):
        raise BuildError("container dropped notes: %r" % (notes,))
    if [[n.name, n.octave] for n in nc.notes] != [[n[0], n[1]] for n in notes]:
        # the description lists the notes in another order than the constructor's (sorted) one: put them there by item
        # assignment, the documented way to replace a note in place
        try:
            for i, n in enumerate(notes):
                nc[i] = Note(n[0], n[1], channel=n[2], velocity=n[3])
        except Exception as e:  # noqa
            raise BuildError("cannot reorder container %r: %r" % (notes, e))
        if [[n.name, n.octave] for n in nc.notes] != [[n[0], n[1]] for n in notes]:
            raise BuildError("item assignment did not keep the order: %r" % (notes,))
    if bpm is not None:
        nc.bpm = bpm
    return nc


def build_bar(bd):
    from vlib.ref import rvalues as RV
    try:
        b = Bar(bd["key"], (bd["meter"][0], bd["meter"][1]))
    except Exception as e:  # noqa
        raise BuildError("cannot build bar %r %r: %r" % (bd["key"], bd["meter"], e))
    built = []
    for e in bd["entries"]:
        if e.get("reuse") is not None and e["reuse"] < len(built) and built[e["reuse"]] is not None:
            nc = built[e["reuse"]]  # the very same container object as that earlier entry
        else:
            nc = build_nc(e["notes"], e.get("bpm"), bool(e.get("sub")))
        built.append(nc)
        try:
            ok = b.place_notes(nc, RV.number(e["v"]))
        except Exception as ex:  # noqa
            raise BuildError("place_notes raised %r" % (ex,))
        if not ok:
            raise BuildError("bar refused entry %r in %r" % (e, bd["meter"]))
    return b


def build_instrument(spec):
    from mingus.containers.instrument import Instrument, MidiInstrument
    if spec is None:
        return None
    if spec["kind"] == "percussion":
        from mingus.containers.instrument import MidiPercussionInstrument
        return MidiPercussionInstrument()  # a drum kit: no program number of its own; notes keep the channels they carry
    if spec["kind"] == "midi" and spec.get("duck"):
        i = Instrument()
        i.instrument_nr = spec["nr"]
        i.name = spec["name"]
        return i
    if spec["kind"] == "midi":
        i = user_midi_instrument_class()() if spec.get("sub") else MidiInstrument()
        i.instrument_nr = spec["nr"]
        i.name = spec["name"]
        return i
    i = Instrument()
    i.name = spec["name"]
    return i


def build_track(td, instrument=None):
    from mingus.containers import Track
    t = Track(instrument if instrument is not None else build_instrument(td["instr"]))
    if td.get("name") is not None:
        t.name = td["name"]
    built = []
    for bd in td["bars"]:
        b = built[bd["same_as"]] if bd.get("same_as") is not None and bd["same_as"] < len(built) else build_bar(bd)
        built.append(b)
        t.add_bar(b)
    return t


def build_comp(cd):
    from mingus.containers import Composition
    c = Composition()
    c.set_title(cd.get("title", "Untitled"), cd.get("subtitle", ""))
    c.set_author(cd.get("author", ""), cd.get("email", ""))
    shared = {}
    for td in cd["tracks"]:
        instr = None
        if cd.get("share_instruments") and td["instr"] is not None:
            key = repr(sorted(td["instr"].items()))
            if key not in shared:
                shared[key] = build_instrument(td["instr"])
            instr = shared[key]
        c.add_track(build_track(td, instr))
    return c
