"""Framework core: context, evidence, findings, replay, hypothesis/enumeration drivers, sharding.

A property module (props/cNN.py) exposes

    PROPERTY_ID = "C01"
    RULE = "<generation + non-triviality rule in words>"
    ASSUMPTIONS = [...]
    SUBS = [Sub(name, fn, quick=1, thorough=16), ...]   # fn(ctx, shard, nshards)
    CHECKS = {check_name: check_fn}                     # check_fn(ctx, case) for replay

Every sub-check evaluates *cases* (plain JSON-able data) through a pure function
``check(ctx, case)`` which reports discrepancies with ``ctx.fail(signature, detail)``.
"""
from __future__ import annotations

import hashlib
import json
import multiprocessing
import os
import signal
import sys
import time
import traceback

VERIF_DIR = os.path.dirname(os.path.dirname(os.path.abspath(__file__)))
REPO = os.path.abspath(os.environ.get("VERIF_REPO", "/repo"))
FINDINGS_FILE = os.path.join(VERIF_DIR, "KNOWN_FINDINGS.txt")
WATCHDOG_S = 120


class Violation(Exception):
    def __init__(self, sig, check, case, detail):
        Exception.__init__(self, "%s: %s" % (sig, detail))
        self.sig, self.check, self.case, self.detail = sig, check, case, detail


class HarnessError(Exception):
    pass


class WatchdogTimeout(BaseException):
    pass


def _alarm(signum, frame):
    raise WatchdogTimeout()


def jsonable(x):
    """Canonical JSON-able form of a case (tuples -> lists, sets sorted, objects repr'd)."""
    if isinstance(x, (str, int, bool)) or x is None:
        return x
    if isinstance(x, float):
        return x if x == x and x not in (float("inf"), float("-inf")) else repr(x)
    if isinstance(x, (list, tuple)):
        return [jsonable(i) for i in x]
    if isinstance(x, (set, frozenset)):
        return sorted((jsonable(i) for i in x), key=repr)
    if isinstance(x, dict):
        return {str(k): jsonable(v) for k, v in x.items()}
    if isinstance(x, bytes):
        return {"__bytes__": x.hex()}
    return repr(x)


def case_hash(check, case):
    s = json.dumps([check, jsonable(case)], sort_keys=True, default=repr)
    return hashlib.blake2b(s.encode(), digest_size=8).hexdigest()


class Sub(object):
    def __init__(self, name, fn, quick=1, thorough=1):
        self.name, self.fn, self.quick, self.thorough = name, fn, quick, thorough


def load_findings(pid):
    """Open findings for one property: list of (signature glob, text)."""
    res = []
    if os.path.exists(FINDINGS_FILE):
        for line in open(FINDINGS_FILE):
            line = line.strip()
            if line.startswith("finding:"):
                body = line[len("finding:"):].strip()
                head, _, text = body.partition("::")
                kv = dict(p.split("=", 1) for p in head.split() if "=" in p)
                if kv.get("property") == pid and "sig" in kv:
                    res.append((kv["sig"], text.strip()))
    return res


class Ctx(object):
    """Per-process (per shard) context; stats are merged by the parent."""

    MAX_SAMPLES = 6

    def __init__(self, pid, tier, seed, findings, replaying=False):
        self.pid, self.tier, self.seed = pid, tier, seed
        self.quick = tier == "quick"
        self.findings = findings
        self.replaying = replaying
        self.evaluations = 0
        self.nontrivial = set()
        self.classes = {}
        self.samples = []
        self.late_samples = []
        self.known_hit = {}
        self.suppressed = set()  # signatures already reported in this run (search continues behind them)
        self.violations = []  # dicts
        self.exhaustive_domains = []
        self.cur_check = None
        self.cur_case = None
        self.sub = None
        self.notes = []
        self.hung = None  # Violation of the first call that never returned (watchdog)

    # ---- bookkeeping -------------------------------------------------------------------------
    def begin(self, check, case):
        self.cur_check, self.cur_case = check, case
        self.evaluations += 1

    def note_case(self, nontrivial=False, labels=()):
        """Classify the current case (call once per case, after it has been evaluated)."""
        for lab in labels:
            self.classes[lab] = self.classes.get(lab, 0) + 1
        if nontrivial:
            h = case_hash(self.cur_check, self.cur_case)
            if h not in self.nontrivial:
                self.nontrivial.add(h)
                s = {"check": self.cur_check, "case": jsonable(self.cur_case)}
                if len(self.samples) < self.MAX_SAMPLES:
                    self.samples.append(s)
                else:
                    self.late_samples = (self.late_samples + [s])[-3:]

    def label(self, lab, n=1):
        self.classes[lab] = self.classes.get(lab, 0) + n

    def exhaustive(self, name, bound, size):
        self.exhaustive_domains.append({"name": name, "bound": bound, "size": size})

    # ---- reporting ---------------------------------------------------------------------------
    def is_known(self, sig):
        import fnmatch
        for pat, text in self.findings:
            if fnmatch.fnmatchcase(sig, pat):
                return pat, text
        return None

    def fail(self, sig, detail=""):
        """Report that the current case violates the property (clause identified by sig)."""
        sig = "%s/%s" % (self.pid, sig)
        k = self.is_known(sig)
        if k is not None:
            self.known_hit[k[0]] = self.known_hit.get(k[0], 0) + 1
            return
        if sig in self.suppressed:
            self.classes["suppressed:" + sig] = self.classes.get("suppressed:" + sig, 0) + 1
            return
        raise Violation(sig, self.cur_check, self.cur_case, str(detail)[:2000])

    def check(self, cond, sig, detail=""):
        if not cond:
            self.fail(sig, detail() if callable(detail) else detail)
        return cond

    @staticmethod
    def _args(a):
        try:
            return repr(a)
        except ValueError:  # an integer too long for Python's decimal conversion limit
            return "(%s)" % ", ".join("<int of %d bits>" % x.bit_length() if isinstance(x, int) else repr(x) for x in a)

    def ok(self, sig, f, *a, **kw):
        """Call mingus code that the property says must succeed."""
        try:
            return f(*a, **kw)
        except Violation:
            raise
        except Exception as e:  # noqa
            self.fail("%s/raises/%s" % (sig, type(e).__name__), "%s%s raised %r" % (getattr(f, "__name__", f), self._args(a), e))
            return _FAILED

    def raises(self, sig, exc_types, f, *a, **kw):
        """Call mingus code that the property says must be rejected with one of exc_types."""
        try:
            r = f(*a, **kw)
        except exc_types:
            return True
        except Violation:
            raise
        except Exception as e:  # noqa
            self.fail("%s/wrong-error/%s" % (sig, type(e).__name__),
                      "%s%s raised %r, expected %s" % (getattr(f, "__name__", f), self._args(a), e, exc_types))
            return False
        self.fail("%s/accepted" % sig, "%s%s returned %r, expected %s" % (getattr(f, "__name__", f), self._args(a), r, exc_types))
        return False

    # ---- drivers -----------------------------------------------------------------------------
    def _guard(self, check_name, check_fn, case):
        """Evaluate one case; convert escaping mingus exceptions / hangs into violations."""
        if self.hung is not None:
            return  # a call never returned earlier in this shard: stop exploring, the hang is already reported
        self.begin(check_name, case)
        signal.setitimer(signal.ITIMER_REAL, WATCHDOG_S)
        try:
            check_fn(self, case)
        except Violation:
            raise
        except WatchdogTimeout:
            signal.setitimer(signal.ITIMER_REAL, 0)
            try:
                self.fail("%s/timeout" % check_name, "no answer within %d s" % WATCHDOG_S)
            except Violation as v:
                self.hung = v
                raise
        except RecursionError as e:
            self.fail("%s/exception/RecursionError" % check_name, repr(e))
        except Exception as e:
            if type(e).__module__.startswith("hypothesis"):
                raise
            tb = traceback.extract_tb(e.__traceback__)
            inner = tb[-1].filename if tb else ""
            in_repo = [f for f in tb if os.path.abspath(f.filename).startswith(REPO + os.sep)]
            if in_repo:
                self.fail("%s/exception/%s" % (check_name, type(e).__name__),
                          "unexpected %r at %s:%d" % (e, in_repo[-1].filename, in_repo[-1].lineno))
            else:
                raise HarnessError("harness exception in %s on case %r:\n%s" % (
                    check_name, case, "".join(traceback.format_exception(type(e), e, e.__traceback__))))
        finally:
            signal.setitimer(signal.ITIMER_REAL, 0)

    def enumerate(self, check_name, check_fn, cases, size_key=None, max_violations=8):
        """Bounded-exhaustive driver: run all cases, keep the smallest failing case per signature."""
        best = {}
        for case in cases:
            try:
                self._guard(check_name, check_fn, case)
            except Violation as v:
                k = (size_key(case) if size_key else len(json.dumps(jsonable(case), default=repr)))
                if v.sig not in best or k < best[v.sig][0]:
                    best[v.sig] = (k, v)
                if len(best) >= max_violations or self.hung is not None:
                    break
        for sig, (k, v) in sorted(best.items()):
            self._record(v)
            self.suppressed.add(sig)

    def given(self, check_name, check_fn, strategy, max_examples, max_rounds=4):
        """Hypothesis driver: seeded, shrinks; after a violation the search continues behind it."""
        import hypothesis
        from hypothesis import HealthCheck, Phase, given, settings

        # a failing case is shrunk for at most 40 s (quick) / 240 s (thorough) per round instead of Hypothesis' 300 s: what is
        # reported is still a case that really fails (the best one found so far), only possibly less small
        try:
            from hypothesis.internal.conjecture import engine as _engine
            _engine.MAX_SHRINKING_SECONDS = 40 if self.quick else 240
        except Exception:  # noqa
            pass
        base = int(hashlib.blake2b(("%s/%s/%s" % (self.pid, check_name, getattr(self, "shard", 0))).encode(),
                                   digest_size=4).hexdigest(), 16)
        for rnd in range(max_rounds):
            sd = (self.seed * 1000003 + base + rnd * 7919) % (2 ** 62)
            ctx = self

            @hypothesis.seed(sd)
            @settings(max_examples=max_examples, deadline=None, database=None, derandomize=False,
                      report_multiple_bugs=False, print_blob=False,
                      phases=[Phase.generate, Phase.shrink],
                      suppress_health_check=list(HealthCheck))
            @given(strategy)
            def t(case):
                ctx._guard(check_name, check_fn, case)

            try:
                t()
                return
            except Violation as v:
                self._record(v)
                self.suppressed.add(v.sig)
                if self.hung is not None:
                    return
            except Exception as e:  # noqa
                if self.hung is not None:  # shrinking was cut short after a hang: report the hanging case itself
                    self._record(self.hung)
                    return
                if isinstance(e, hypothesis.errors.Flaky):
                    # the case failed once and passed when Hypothesis replayed it: state outside the case (a class-level table, a
                    # module cache) changed in between.  Report the violation that was seen, with its own case, and say so.
                    inner = [x for x in getattr(e, "exceptions", ()) if isinstance(x, Violation)]
                    if inner:
                        v = inner[0]
                        self._record(Violation(v.sig, v.check, v.case, v.detail + "  [seen once; did not fail again when the same case "
                                               "was run a second time in this process: it depends on state left behind by earlier cases]"))
                        self.suppressed.add(v.sig)
                        continue
                    self._record(Violation("%s/%s/flaky" % (self.pid, check_name), check_name, None, repr(e)))
                    return
                raise

    def _record(self, v):
        self.violations.append({"sig": v.sig, "check": v.check, "case": jsonable(v.case), "detail": v.detail})

    # ---- merging -----------------------------------------------------------------------------
    def stats(self):
        return dict(evaluations=self.evaluations, nontrivial=self.nontrivial, classes=self.classes,
                    samples=self.samples, late=self.late_samples, known=self.known_hit,
                    violations=self.violations, exh=self.exhaustive_domains, notes=self.notes)


class _Failed(object):
    def __repr__(self):
        return "<call failed>"


_FAILED = _Failed()
FAILED = _FAILED


def failed(x):
    return x is _FAILED


# ------------------------------------------------------------------------------------------------


def _run_task(args):
    (modname, subname, shard, nshards, pid, tier, seed) = args
    signal.signal(signal.SIGALRM, _alarm)
    import importlib
    mod = importlib.import_module(modname)
    sub = [s for s in mod.SUBS if s.name == subname][0]
    ctx = Ctx(pid, tier, seed, load_findings(pid))
    ctx.sub, ctx.shard = subname, shard
    t0 = time.time()
    err = None
    try:
        sub.fn(ctx, shard, nshards)
    except HarnessError as e:
        err = str(e)
    except Violation as v:  # a sub that called a check outside a driver
        ctx._record(v)
    except BaseException as e:  # noqa
        err = "".join(traceback.format_exception(type(e), e, e.__traceback__))
    st = ctx.stats()
    st.update(sub=subname, shard=shard, wall=time.time() - t0, error=err)
    return st


def run_property(modname, tier, seed, only_subs=None, procs=None):
    import importlib
    mod = importlib.import_module(modname)
    pid = mod.PROPERTY_ID
    t0 = time.time()
    tasks = []
    for s in mod.SUBS:
        if only_subs and s.name not in only_subs:
            continue
        n = s.quick if tier == "quick" else s.thorough
        for i in range(n):
            tasks.append((modname, s.name, i, n, pid, tier, seed))
    procs = procs or int(os.environ.get("VERIF_PROCS", "0")) or min(16, max(1, len(tasks)))
    if procs == 1 or len(tasks) == 1:
        results = [_run_task(t) for t in tasks]
    else:
        mpctx = multiprocessing.get_context("fork")
        with mpctx.Pool(procs, maxtasksperchild=1) as pool:
            results = pool.map(_run_task, tasks, chunksize=1)
    # merge
    ev = 0
    nontriv = set()
    classes = {}
    samples, late = [], []
    known = {}
    violations = {}
    exh = []
    errors = []
    per_sub = {}
    for r in results:
        ev += r["evaluations"]
        nontriv |= r["nontrivial"]
        for k, v in r["classes"].items():
            classes[k] = classes.get(k, 0) + v
        if r["shard"] == 0:
            samples += r["samples"][:2]
            late += r["late"][:1]
        for k, v in r["known"].items():
            known[k] = known.get(k, 0) + v
        for v in r["violations"]:
            cur = violations.get(v["sig"])
            if cur is None or len(json.dumps(v["case"])) < len(json.dumps(cur["case"])):
                violations[v["sig"]] = v
        for e in r["exh"]:
            if e not in exh:
                exh.append(e)
        if r["error"]:
            errors.append("%s[%d]: %s" % (r["sub"], r["shard"], r["error"]))
        ps = per_sub.setdefault(r["sub"], {"evaluations": 0, "wall_s": 0.0, "shards": 0})
        ps["evaluations"] += r["evaluations"]
        ps["wall_s"] = round(max(ps["wall_s"], r["wall"]), 2)
        ps["shards"] += 1
    wall = time.time() - t0
    findings = load_findings(pid)
    out = []
    # replay files
    vio_list = []
    for sig, v in sorted(violations.items()):
        h = hashlib.blake2b(json.dumps([v["check"], v["case"]], sort_keys=True).encode(), digest_size=6).hexdigest()
        # runs against a scratch copy (sensitivity tools) keep their replay files inside that copy, which is removed afterwards
        d = os.path.join(VERIF_DIR, "replays", pid) if REPO == "/repo" else os.path.join(REPO, ".verif-replays", pid)
        os.makedirs(d, exist_ok=True)
        path = os.path.join(d, "%s.json" % h)
        with open(path, "w") as f:
            json.dump({"property": pid, "check": v["check"], "case": v["case"], "signature": sig,
                       "detail": v["detail"], "seed": seed, "tier": tier}, f, indent=1)
        rel = os.path.relpath(path, VERIF_DIR)
        out.append("VIOLATION property=%s replay=%s" % (pid, rel))
        out.append("  signature=%s check=%s" % (sig, v["check"]))
        out.append("  case=%s" % json.dumps(v["case"])[:600])
        out.append("  detail=%s" % v["detail"][:600])
        vio_list.append({"signature": sig, "replay": rel})
    for pat, n in sorted(known.items()):
        text = dict(findings).get(pat, "")
        out.append("KNOWN-FINDING: property=%s %s [sig=%s, %d cases excluded]" % (pid, text, pat, n))
    evidence = {
        "property_id": pid,
        "tier": tier,
        "seed": seed,
        "level": "exploration",
        "coverage": {
            "evaluations": ev,
            "distinct_nontrivial": len(nontriv),
            "rule": mod.RULE,
            "samples": (samples + late)[:14],
            "classes": dict(sorted(classes.items())),
            "per_subcheck": per_sub,
            "exhaustive": bool(exh),
            "exhaustive_domains": exh,
            "known_findings_hit": known,
            "violation_signatures": vio_list,
            "technique": "property-based testing (Hypothesis %s, seeded) + bounded-exhaustive enumeration "
                         "against an independent reference model" % _hyp_version(),
        },
        "assumptions": list(getattr(mod, "ASSUMPTIONS", [])),
        "wall_s": round(wall, 2),
        "violations": len(vio_list),
    }
    os.makedirs(os.path.join(VERIF_DIR, "evidence"), exist_ok=True)
    if REPO != "/repo":
        print("note: VERIF_REPO=%s is a scratch copy; evidence/%s.json is only written for runs against /repo" % (REPO, pid))
    elif not only_subs:
        with open(os.path.join(VERIF_DIR, "evidence", "%s.json" % pid), "w") as f:
            json.dump(evidence, f, indent=1, default=repr)
            f.write("\n")
    print("%s tier=%s seed=%d evaluations=%d distinct_nontrivial=%d wall=%.1fs" % (
        pid, tier, seed, ev, len(nontriv), wall))
    for k, ps in per_sub.items():
        print("  sub %-28s evals=%-9d shards=%-3d wall=%.1fs" % (k, ps["evaluations"], ps["shards"], ps["wall_s"]))
    for line in out:
        print(line)
    if errors:
        for e in errors[:3]:
            print("HARNESS-ERROR %s" % e[:3000], file=sys.stderr)
        if len(errors) > 3:
            print("HARNESS-ERROR ... and %d more shard errors" % (len(errors) - 3), file=sys.stderr)
        if not vio_list:
            return 2
        # violations were established (each with its replay file) before / beside the harness error: they stand on their own
        print("note: %d shard(s) also ended in a harness error (above); the violations are reported regardless" % len(errors), file=sys.stderr)
    if vio_list:
        return 1
    if ev == 0 or len(nontriv) < 2:
        print("HARNESS-ERROR generator produced no non-trivial cases", file=sys.stderr)
        return 2
    return 0


def _hyp_version():
    try:
        import hypothesis
        return hypothesis.__version__
    except Exception:  # noqa
        return "?"


def run_replay(modname, path):
    import importlib
    signal.signal(signal.SIGALRM, _alarm)
    mod = importlib.import_module(modname)
    pid = mod.PROPERTY_ID
    data = json.load(open(path))
    fn = mod.CHECKS[data["check"]]
    ctx = Ctx(pid, "quick", int(data.get("seed", 1)), load_findings(pid), replaying=True)
    try:
        ctx._guard(data["check"], fn, data["case"])
    except Violation as v:
        print("VIOLATION property=%s replay=%s" % (pid, path))
        print("  signature=%s" % v.sig)
        print("  detail=%s" % v.detail[:1000])
        return 1
    for pat, n in ctx.known_hit.items():
        print("KNOWN-FINDING: property=%s %s" % (pid, dict(ctx.findings).get(pat, "")))
    print("replay of %s: property holds on this case" % path)
    return 0
