"""R-chords: reference chord formulas, pinned shorthand meanings, builder names, diatonic harmony helpers.

Never imports mingus.  The formula table says what each named chord IS (music theory + the docstrings of the
builder functions / of from_shorthand): shorthand -> list of (degree, semitones above the root) for the notes
after the root, in the order the chord is written.
"""
from vlib.ref import theory as T

# building blocks (degree, semitones)
m2, M2, A2 = (2, 1), (2, 2), (2, 3)
m3, M3 = (3, 3), (3, 4)
P4, A4 = (4, 5), (4, 6)
d5, P5, A5 = (5, 6), (5, 7), (5, 8)
M6 = (6, 9)
d7, m7, M7 = (7, 9), (7, 10), (7, 11)

_MAJ, _MIN, _DIM, _AUG = [M3, P5], [m3, P5], [m3, d5], [M3, A5]
_SUS4, _SUS2 = [P4, P5], [M2, P5]
_DOM7, _MIN7, _MAJ7 = _MAJ + [m7], _MIN + [m7], _MAJ + [M7]
_DOM9, _MIN9, _MAJ9 = _DOM7 + [M2], _MIN7 + [M2], _MAJ7 + [M2]

FORMULAS = {
    # triads
    "m": _MIN, "M": _MAJ, "": _MAJ, "dim": _DIM,
    # augmented chords: 'aug' or '+', '7#5' or 'M7+5' (augmented minor seventh), 'M7+', 'm7+', '7+'
    "aug": _AUG, "+": _AUG,
    "7#5": _AUG + [m7], "M7+5": _AUG + [m7], "m7+": _AUG + [m7],
    "M7+": _AUG + [M7], "7+": _AUG + [M7],
    # suspended chords
    "sus4": _SUS4, "sus": _SUS4, "sus2": _SUS2,
    "sus47": _SUS4 + [m7], "7sus4": _SUS4 + [m7],
    "sus4b9": _SUS4 + [m2], "susb9": _SUS4 + [m2],
    # the (dominant) eleventh as this library documents it: root, fifth, minor seventh, eleventh
    "11": [P5, m7, P4], "add11": [P5, m7, P4],
    # sevenths
    "m7": _MIN7, "M7": _MAJ7, "7": _DOM7, "dom7": _DOM7,
    "m7b5": _DIM + [m7], "dim7": _DIM + [d7],
    "m/M7": _MIN + [M7], "mM7": _MIN + [M7],
    # sixths
    "m6": _MIN + [M6], "M6": _MAJ + [M6], "6": _MAJ + [M6],
    "6/7": _MAJ + [M6, m7], "67": _MAJ + [M6, m7],
    "6/9": _MAJ + [M6, M2], "69": _MAJ + [M6, M2],
    # ninths
    "9": _DOM9, "add9": _DOM9, "M9": _MAJ9, "m9": _MIN9,
    "7b9": _DOM7 + [m2], "7#9": _DOM7 + [A2],
    # elevenths
    "7#11": _DOM7 + [A4], "m11": _MIN7 + [P4], "M11": _MAJ9 + [P4],
    # thirteenths
    "13": _DOM9 + [M6], "add13": _DOM9 + [M6], "M13": _MAJ9 + [M6], "m13": _MIN9 + [M6],
    # altered / special
    "7b5": [M3, d5, m7],
    "hendrix": _DOM7 + [m3], "7b12": _DOM7 + [m3],
    "5": [P5],
}

# pinned copy of the documented meaning of every shorthand (long chord names start with the root + this text)
MEANING = {
    "m": " minor triad", "M": " major triad", "": " major triad", "dim": " diminished triad",
    "aug": " augmented triad", "+": " augmented triad",
    "7#5": " augmented minor seventh", "M7+5": " augmented minor seventh", "m7+": " augmented minor seventh",
    "M7+": " augmented major seventh", "7+": " augmented major seventh",
    "sus47": " suspended seventh", "7sus4": " suspended seventh",
    "sus4": " suspended fourth triad", "sus": " suspended fourth triad", "sus2": " suspended second triad",
    "11": " eleventh", "add11": " eleventh",
    "sus4b9": " suspended fourth ninth", "susb9": " suspended fourth ninth",
    "m7": " minor seventh", "M7": " major seventh", "dom7": " dominant seventh", "7": " dominant seventh",
    "m7b5": " half diminished seventh", "dim7": " diminished seventh",
    "m/M7": " minor/major seventh", "mM7": " minor/major seventh",
    "m6": " minor sixth", "M6": " major sixth", "6": " major sixth",
    "6/7": " dominant sixth", "67": " dominant sixth", "6/9": " sixth ninth", "69": " sixth ninth",
    "9": " dominant ninth", "add9": " dominant ninth",
    "7b9": " dominant flat ninth", "7#9": " dominant sharp ninth",
    "M9": " major ninth", "m9": " minor ninth",
    "7#11": " lydian dominant seventh", "m11": " minor eleventh", "M11": " major eleventh",
    "M13": " major thirteenth", "m13": " minor thirteenth", "13": " dominant thirteenth",
    "add13": " dominant thirteenth",
    "7b5": " dominant flat five", "hendrix": " hendrix chord", "7b12": " hendrix chord",
    "5": " perfect fifth",
}

ORDINALS = ["", ", first inversion", ", second inversion", ", third inversion", ", fourth inversion",
            ", fifth inversion", ", sixth inversion"]

# named builder function -> the shorthand whose chord it builds
BUILDERS = {
    "major_triad": "M", "minor_triad": "m", "diminished_triad": "dim", "augmented_triad": "aug",
    "major_seventh": "M7", "minor_seventh": "m7", "dominant_seventh": "7",
    "half_diminished_seventh": "m7b5", "minor_seventh_flat_five": "m7b5", "diminished_seventh": "dim7",
    "minor_major_seventh": "mM7",
    "minor_sixth": "m6", "major_sixth": "M6", "dominant_sixth": "67", "sixth_ninth": "69",
    "minor_ninth": "m9", "major_ninth": "M9", "dominant_ninth": "9",
    "dominant_flat_ninth": "7b9", "dominant_sharp_ninth": "7#9",
    "eleventh": "11", "minor_eleventh": "m11", "major_eleventh": "M11",
    "minor_thirteenth": "m13", "major_thirteenth": "M13", "dominant_thirteenth": "13",
    "suspended_triad": "sus", "suspended_second_triad": "sus2", "suspended_fourth_triad": "sus4",
    "suspended_seventh": "sus47", "suspended_fourth_ninth": "sus4b9",
    "augmented_major_seventh": "M7+", "augmented_minor_seventh": "m7+",
    "dominant_flat_five": "7b5", "lydian_dominant_seventh": "7#11", "hendrix_chord": "hendrix",
}
BUILDERS_OF = {}
for _f, _sh in BUILDERS.items():
    for _k, _v in FORMULAS.items():
        if _v == FORMULAS[_sh]:
            BUILDERS_OF.setdefault(_k, []).append(_f)

SLASHED = ("m/M7", "6/9", "6/7")  # shorthands that contain '/' themselves


def items(root, sh):
    """expected chord as a list of items: the exact root, then (letter, pitch class) per formula entry"""
    return [root] + [T.spell(root, d, s) for d, s in FORMULAS[sh]]


def build(root, sh):
    """one concrete spelling of the chord (fewest accidentals per note); used to generate recognition inputs"""
    return [root] + [T.canonical(*T.spell(root, d, s)) for d, s in FORMULAS[sh]]


def item_ok(name, item):
    if isinstance(item, str):
        return name == item
    return T.matches(name, item[0], item[1])


def chord_ok(got, exp):
    return isinstance(got, list) and len(got) == len(exp) and all(item_ok(g, e) for g, e in zip(got, exp))


def item_key(item):
    """(letter, pitch class) identity of an expected item (exact names are reduced the same way)"""
    if isinstance(item, str):
        return (item[0], T.pc(item))
    return (item[0], item[1] % 12)


def poly_items(x_items, y_items):
    """'X|Y' = Y's notes, then X's notes, where a note equal to the one just before it is not repeated"""
    res = list(y_items)
    for it in x_items:
        if not res or item_key(it) != item_key(res[-1]):
            res.append(it)
    return res


# ---- alias spellings ---------------------------------------------------------------------------------
ALIASES = {"m": ["m", "min", "mi", "-"], "M": ["M", "maj", "ma"]}


def alias_variants(sh):
    """every spelling of sh with each occurrence of m / M independently replaced; list of (variant, tag)"""
    res = [("", "")]
    for ch in sh:
        if ch in ALIASES:
            res = [(v + a, (tag + "+" + a) if a != ch else tag) for v, tag in res for a in ALIASES[ch]]
        else:
            res = [(v + ch, tag) for v, tag in res]
    return [(v, tag.lstrip("+")) for v, tag in res if v != sh]


def normalise(s):
    """the documented alias rewriting (min, mi, - -> m; maj, ma -> M)"""
    for a, b in (("min", "m"), ("mi", "m"), ("-", "m"), ("maj", "M"), ("ma", "M")):
        s = s.replace(a, b)
    return s


# ---- diatonic harmony --------------------------------------------------------------------------------
NUMERALS = ["I", "II", "III", "IV", "V", "VI", "VII"]
FUNCTIONS = ["tonic", "supertonic", "mediant", "subdominant", "dominant", "submediant", "subtonic"]


def diatonic(key, degree, size):
    """stack of `size` thirds on scale degree `degree` (0-based) inside the key's own notes"""
    ns = T.key_notes(key)
    return [ns[(degree + 2 * i) % 7] for i in range(size)]


def shifted_items(names, shift):
    """(letter, pitch class) items of names moved by `shift` semitones on the same letters"""
    return [(n[0], (T.pc(n) + shift) % 12) for n in names]


def parse_numeral(s):
    """own reader of a progression string: (numeral upper-cased, net accidentals, suffix)"""
    acc = 0
    num = ""
    i = 0
    while i < len(s):
        c = s[i]
        if c == "#":
            acc += 1
        elif c == "b":
            acc -= 1
        elif c in "IViv":
            num += c.upper()
        else:
            break
        i += 1
    return num, acc, s[i:]


def prefix(acc):
    return "#" * acc if acc > 0 else "b" * (-acc)
