"""Expected MIDI event content of an R-score description (never imports mingus)."""
from fractions import Fraction as Fr

from vlib.ref import rvalues as RV
from vlib.ref import theory as T

TPW = 288  # ticks per whole note (72 per quarter)


def ticks(v):
    return int(round(TPW * RV.vlen(v)))


def half_tick(v):
    """tick length exactly x.5: rounding would depend on float artefacts"""
    x = TPW * RV.vlen(v) * 2
    return x.denominator == 1 and x.numerator % 2 == 1


def integral_tick(v):
    return (TPW * RV.vlen(v)).denominator == 1


def key_bytes(key):
    return (T.KEY_SIG[key], 1 if T.key_is_minor(key) else 0)


def log2(d):
    k = 0
    while 2 ** k < d:
        k += 1
    return k


def track_events(td, bpm, repeat, with_name=True, with_instrument=True):
    """expected decoded events of one track chunk: list of (tick | None, kind, ...)"""
    ev = [(0, "tempo", 60000000 // bpm)]
    tick = 0
    nr = td["instr"]["nr"] if (with_instrument and td.get("instr") and td["instr"]["kind"] == "midi") else None
    for _ in range(repeat + 1):
        if with_name:
            ev.append((None, "name", td["name"] if td.get("name") is not None else "Untitled"))
        first = nr is not None
        for b in td["bars"]:
            ev.append((tick, "ts", b["meter"][0], log2(b["meter"][1])))
            ev.append((tick, "ks") + key_bytes(b["key"]))
            for e in b["entries"]:
                d = ticks(e["v"])
                if e["notes"]:
                    if "bpm" in e:
                        ev.append((tick, "tempo", 60000000 // e["bpm"]))
                    if first:
                        ch = e["notes"][0][2]
                        ev.append((tick, "bank", ch))
                        ev.append((tick, "pc", ch, nr))
                        first = False
                    for (n, o, c, vel) in e["notes"]:
                        ev.append((tick, "on", c, T.pitch(n, o) + 12, vel))
                    for (n, o, c, vel) in e["notes"]:
                        ev.append((tick + d, "off", c, T.pitch(n, o) + 12, vel))
                tick += d
    return ev


ANNOTATION_METAS = (0x00, 0x01, 0x02, 0x04, 0x05, 0x06, 0x07, 0x20, 0x21, 0x7F)


def decode_events(track_events_raw):
    """translate R-smf events into the same vocabulary; unknown events are kept as ('?', ...) so they cause a mismatch"""
    ev = []
    for e in track_events_raw:
        t = e[0]
        if e[1] == "meta":
            ty, dat = e[2], e[3]
            if ty == 0x51 and len(dat) == 3:
                ev.append((t, "tempo", int.from_bytes(dat, "big")))
            elif ty == 0x03:
                ev.append((None, "name", dat.decode("ascii", "replace")))
            elif ty == 0x58 and len(dat) == 4:
                # numerator and denominator exponent are the time signature; the metronome-click and 32nds-per-quarter bytes are
                # presentation hints the statement does not talk about
                ev.append((t, "ts", dat[0], dat[1]))
            elif ty == 0x59 and len(dat) == 2:
                ev.append((t, "ks", dat[0] - 256 if dat[0] > 127 else dat[0], dat[1]))
            elif ty == 0x2F:
                pass
            elif ty in ANNOTATION_METAS:
                pass  # text, copyright, instrument name, lyric, marker, cue point, channel / port prefix, sequencer-specific: no music
            else:
                ev.append((t, "?meta", ty, dat.hex()))
        elif e[1] == "on":
            ev.append((t, "on", e[2], e[3], e[4]))
        elif e[1] == "off":
            ev.append((t, "off", e[2], e[3], e[4]))  # the matching note-off carries the note's velocity as well
        elif e[1] == "cc" and e[3] == 0:
            ev.append((t, "bank", e[2]))
        elif e[1] == "pc":
            ev.append((t, "pc", e[2], e[3]))
        else:
            ev.append((t, "?") + tuple(e[1:]))
    return ev


def flatten(td):
    """C17: sequence of [ticks, sorted pitches] over all bars, adjacent rests merged, trailing rests dropped"""
    out = []
    for b in td["bars"]:
        for e in b["entries"]:
            d = ticks(e["v"])
            ps = sorted(T.pitch(n[0], n[1]) for n in e["notes"]) if e["notes"] else []
            if not ps and out and not out[-1][1]:
                out[-1][0] += d
            else:
                out.append([d, ps])
    while out and not out[-1][1]:
        out.pop()
    return out
