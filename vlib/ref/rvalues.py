"""R-values: the documented note-value vocabulary as exact rationals (never imports mingus).

A value id is a list [base, dots, p, q]: base in BASES (0.25 = longa ... 128), dots 0..4, tuplet ratio p:q in
(1:1, 3:2, 5:4, 7:4).  Its length in whole notes is (1/base) * (2 - 2^-dots) * (q/p).
"""
from fractions import Fraction as Fr

BASES = [0.25, 0.5, 1, 2, 4, 8, 16, 32, 64, 128]
RATIOS = [(3, 2), (5, 4), (7, 4)]
QUANTUM = Fr(1, 215040)  # every vocabulary length is a multiple of this


def vlen(v):
    if v[0] == "ticks":  # ["ticks", k]: a value lasting exactly k MIDI ticks (288 ticks per whole note): the number 288/k
        return Fr(v[1], 288)
    if v[0] == "num":  # ["num", n]: the integer n itself as the note value (e.g. 1000: shorter than half a MIDI tick)
        return Fr(1, v[1])
    base, dots, p, q = v
    return Fr(1) / Fr(base) * (2 - Fr(1, 2 ** dots)) * Fr(q, p)


def number(v):
    """the note value as the number handed to mingus: exact int when integral, else the nearest float"""
    x = 1 / vlen(v)
    if x.denominator == 1:
        return int(x)
    return float(x)


def vocab(max_dots=4, tuplets=True, bases=BASES):
    res = []
    for b in bases:
        for d in range(max_dots + 1):
            res.append([b, d, 1, 1])
        if tuplets:
            for (p, q) in RATIOS:
                res.append([b, 0, p, q])
    return res


VOCAB = vocab()  # 80 values
assert all((vlen(v) / QUANTUM).denominator == 1 for v in VOCAB)
