"""Reference scale tables: defining semitone patterns, valid tonics, spelled scales, recognition spec.

Independent of mingus (own tables + vlib.ref.theory arithmetic only).
"""
from . import theory as T

MODES = ["Ionian", "Dorian", "Phrygian", "Lydian", "Mixolydian", "Aeolian", "Locrian"]
MAJOR_FAMILY = ["Major", "HarmonicMajor"]
MINOR_FAMILY = ["NaturalMinor", "HarmonicMinor", "MelodicMinor", "Bachian", "MinorNeapolitan"]
OTHER = ["Chromatic", "WholeTone", "Octatonic"]
CLASSES = MODES + MAJOR_FAMILY + MINOR_FAMILY + OTHER  # the 17 scale classes

# defining ascending step pattern in semitones (one octave)
PATTERNS = {
    "Ionian": [2, 2, 1, 2, 2, 2, 1],
    "Dorian": [2, 1, 2, 2, 2, 1, 2],
    "Phrygian": [1, 2, 2, 2, 1, 2, 2],
    "Lydian": [2, 2, 2, 1, 2, 2, 1],
    "Mixolydian": [2, 2, 1, 2, 2, 1, 2],
    "Aeolian": [2, 1, 2, 2, 1, 2, 2],
    "Locrian": [1, 2, 2, 1, 2, 2, 2],
    "Major": [2, 2, 1, 2, 2, 2, 1],
    "HarmonicMajor": [2, 2, 1, 2, 1, 3, 1],
    "NaturalMinor": [2, 1, 2, 2, 1, 2, 2],
    "HarmonicMinor": [2, 1, 2, 2, 1, 3, 1],
    "MelodicMinor": [2, 1, 2, 2, 2, 2, 1],
    "Bachian": [2, 1, 2, 2, 2, 2, 1],
    "MinorNeapolitan": [1, 2, 2, 2, 1, 3, 1],
    "Chromatic": [1] * 12,
    "WholeTone": [2] * 6,
    "Octatonic": [2, 1] * 4,
}
# classes whose descending form is not the reverse of the ascending one: the pattern (read upwards) of the
# scale they descend through
DESCENDING_PATTERNS = {
    "MelodicMinor": [2, 1, 2, 2, 1, 2, 2],  # natural minor
    "MinorNeapolitan": [1, 2, 2, 2, 1, 2, 2],  # natural minor with the lowered second
}
DIATONIC_PAIRS = [[i, j] for i in range(1, 8) for j in range(i + 1, 8)]  # the 21 semitone-position pairs


def diatonic_pattern(pair):
    """Diatonic(note, (i, j)): semitone steps at positions i and j (1-based), whole tones elsewhere"""
    return [1 if n in pair else 2 for n in range(1, 8)]


def pattern(cls, semitones=None):
    return diatonic_pattern(semitones) if cls == "Diatonic" else PATTERNS[cls]


def is_heptatonic(pat):
    return len(pat) == 7


def tonics(cls, max_acc=2):
    """constructor arguments valid for the class"""
    if cls in MAJOR_FAMILY:
        return list(T.MAJOR_KEYS)
    if cls in MINOR_FAMILY:
        return [T.key_tonic(k) for k in T.MINOR_KEYS]
    if cls == "Chromatic":
        return list(T.ALL_KEYS)  # takes a key; lower case = minor key
    return T.unmixed_names(max_acc)


def expected_tonic(cls, arg):
    return T.key_tonic(arg) if cls == "Chromatic" else arg


def pcs(tonic, pat, octaves):
    """pitch classes of the scale running `octaves` times through pat, closing on the tonic"""
    res = [T.pc(tonic)]
    for st in pat * octaves:
        res.append((res[-1] + st) % 12)
    return res


def spelled(tonic, pat):
    """one octave of a heptatonic scale, without the closing tonic, spelled on consecutive letters"""
    assert len(pat) == 7
    res = [tonic]
    s = 0
    for i, st in enumerate(pat[:-1]):
        s += st
        letter, p = T.spell(tonic, i + 2, s)
        res.append(T.canonical(letter, p))
    return res


# ---- recognition specification ---------------------------------------------------------------------
DISPLAY = {
    "Major": "major", "HarmonicMajor": "harmonic major", "NaturalMinor": "natural minor",
    "HarmonicMinor": "harmonic minor", "MelodicMinor": "melodic minor", "Bachian": "Bachian",
    "MinorNeapolitan": "minor Neapolitan",
}


def _table():
    res = []
    for n in range(-7, 8):
        M, m = T.KEYS[n]
        for fam, tonic in ((MAJOR_FAMILY, M), (MINOR_FAMILY, T.key_tonic(m))):
            for cls in fam:
                asc = frozenset(spelled(tonic, PATTERNS[cls]))
                desc = frozenset(spelled(tonic, DESCENDING_PATTERNS[cls])) if cls in DESCENDING_PATTERNS else asc
                res.append(("%s %s" % (tonic, DISPLAY[cls]), cls, tonic, asc, desc))
    return res


RECOGNISABLE = _table()  # 15 key pairs x (2 major-family + 5 minor-family) = 105 scales


def recognise(notes):
    """names of exactly those major/minor-family scales whose ascending or descending set contains every note"""
    s = set(notes)
    return [name for (name, cls, tonic, asc, desc) in RECOGNISABLE if s <= asc or s <= desc]
