"""R-tab: reads ASCII tablature back into pitches (never imports mingus).

String lines are the lines that start with one space and a note letter and contain the '||' header separator.  They
are grouped into systems of n lines (n = number of strings of the tuning; the bottom line of a system is string 0, as on
paper).  Inside a system the fret numbers are the digit runs after the header; the frets of one entry are right-aligned,
so they share their end column: runs are grouped by end column and read left to right.
"""
import re

_LINE = re.compile(r"^ [A-Ga-g]")


class TabError(Exception):
    pass


def string_lines(text):
    return [l for l in text.splitlines() if "||" in l and _LINE.match(l)]


def marker_lines(text):
    return [l for l in text.splitlines() if "*" in l and not _LINE.match(l)]


def decode_system(lines, open_pitches):
    """lines: n string lines, top line = highest string index. -> (entries [sorted pitch list], end columns, digit widths)"""
    n = len(open_pitches)
    if len(lines) != n:
        raise TabError("system has %d lines for %d strings" % (len(lines), n))
    runs = {}
    for li, l in enumerate(lines):
        string = n - 1 - li
        start = l.find("||") + 2
        for m in re.finditer(r"\d+", l[start:]):
            runs.setdefault(m.end() + start, []).append((string, int(m.group()), len(m.group())))
    cols = sorted(runs)
    return ([sorted(open_pitches[s] + f for (s, f, w) in runs[c]) for c in cols], cols,
            [max(w for (s, f, w) in runs[c]) for c in cols])


def systems(text, counts):
    """split the string lines into consecutive systems whose sizes cycle through counts (one per track)"""
    sl = string_lines(text)
    out = []
    i = 0
    k = 0
    while i < len(sl):
        n = counts[k % len(counts)]
        out.append((k % len(counts), sl[i:i + n]))
        i += n
        k += 1
    return out


def star_distance(marker):
    """columns between two beat markers (None when there is only one)"""
    pos = [i for i, c in enumerate(marker) if c == "*"]
    if len(pos) < 2:
        return None
    return pos[1] - pos[0]
