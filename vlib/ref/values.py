"""R-values: the documented note-value vocabulary as exact rationals (never imports mingus).

A note value is the number v such that the note lasts 1/v of a whole note (quarter = 4, longa = 1/4).
Vocabulary entry (base, dots, p, q): base value `base` with `dots` augmentation dots played as a p:q tuplet.

    length in whole notes = (1/base) * (2 - 2**-dots) * (q/p)          (exact Fraction)
    value number          = 1 / length                                  (exact Fraction)

The float that mingus' own constructors produce for an entry is obtained by the check modules, not here.
"""
from fractions import Fraction

BASES = [0.25, 0.5, 1, 2, 4, 8, 16, 32, 64, 128]  # longa, breve, whole ... 128th (0.25 and 0.5 are exact binary floats)
DOTS = [0, 1, 2, 3, 4]
PLAIN = (1, 1)
TUPLETS = [(3, 2), (5, 4), (7, 4)]  # triplet, quintuplet, septuplet (7 in the time of 4)
RATIOS = [PLAIN] + TUPLETS
SEPTUPLET_IN_EIGHTHS = (7, 8)  # the second documented reading of a septuplet
QUANTUM = Fraction(1, 215040)  # every VOCAB / VOCAB_FULL length is a multiple of 1/(2**11 * 3 * 5 * 7)


def length(base, dots=0, p=1, q=1):
    """exact duration in whole notes"""
    return (1 / Fraction(base)) * (2 - Fraction(1, 2 ** dots)) * Fraction(q, p)


def value(base, dots=0, p=1, q=1):
    """exact note-value number (reciprocal of the duration)"""
    return 1 / length(base, dots, p, q)


def _entries(full):
    res = []
    for base in BASES:
        for dots in DOTS:
            res.append((base, dots, 1, 1, length(base, dots)))
        for (p, q) in TUPLETS:
            for dots in (DOTS if full else [0]):
                res.append((base, dots, p, q, length(base, dots, p, q)))
    return res


# the 80 values mingus documents as recognisable: 10 bases x dots 0..4 (plain) + 10 bases x 3 undotted tuplets
VOCAB = _entries(False)
# the full product 10 bases x dots 0..4 x 4 ratios (200 values; dotted tuplets can be built but not analysed)
VOCAB_FULL = _entries(True)
# centres of the "within 1%" clause: undotted (plain or tuplet) and single-dotted plain values
NEAR_CENTRES = [e for e in VOCAB if e[1] == 0 or (e[1] == 1 and (e[2], e[3]) == PLAIN)]


def key(entry):
    """(base, dots, p, q) of a vocabulary entry - the JSON-able identifier used in cases"""
    return [entry[0], entry[1], entry[2], entry[3]]


def is_plain(entry):
    return entry[1] == 0 and (entry[2], entry[3]) == PLAIN


def add_lengths(values):
    """exact value number of the combined duration of exact value numbers (Fractions / exact floats)"""
    return 1 / sum(1 / Fraction(v) for v in values)


def is_power_of_two_unit(d):
    """True iff d is one of 1, 2, 4, 8, ... ; d is any int or float (incl. inf / nan)"""
    if isinstance(d, bool):
        d = int(d)
    if isinstance(d, float):
        if d != d or d in (float("inf"), float("-inf")) or d != int(d):
            return False
        d = int(d)
    return d >= 1 and (d & (d - 1)) == 0
