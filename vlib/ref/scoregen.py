"""R-score: plain-data descriptions of music and Hypothesis strategies that build them by construction.

comp  = {"title": str, "subtitle": str, "author": str, "tracks": [track]}
track = {"name": str | None, "instr": None | {"kind": "midi", "nr": int, "name": str} | {"kind": "generic", "name": str},
         "bars": [bar]}
bar   = {"key": "Eb", "meter": [n, d], "entries": [entry]}
entry = {"v": [base, dots, p, q], "notes": None | [[name, octave, channel, velocity], ...] (pitch order), "bpm": int (optional)}

Never imports mingus.  Bars are filled by drawing groups (a plain/dotted value, or a complete tuplet group) that still fit
in the exact rational remainder, so no rejection is needed.
"""
from fractions import Fraction as Fr

from hypothesis import strategies as st

from vlib.ref import rvalues as RV
from vlib.ref import theory as T

NAMES2 = T.unmixed_names(2)  # 35 names, up to double accidentals
ALL_METERS = [[n, d] for n in range(1, 13) for d in (1, 2, 4, 8, 16, 32)]
COMMON_METERS = [[4, 4], [3, 4], [2, 4], [6, 8], [12, 8], [5, 4], [2, 2], [7, 8], [3, 8], [1, 4], [9, 8], [4, 2], [1, 1], [3, 16]]


def plain_groups(bases=(1, 2, 4, 8, 16, 32, 64, 128), max_dots=2, tuplets=True, tuplet_bases=None, ok=None):
    """groups = lists of value ids laid end to end; dotted values limited so that every length is a multiple of 1/128"""
    groups = []
    for b in bases:
        for d in range(max_dots + 1):
            if b * 2 ** d <= 128:
                groups.append([[b, d, 1, 1]])
        if tuplets and (b in tuplet_bases if tuplet_bases is not None else 2 <= b <= 64):
            for (p, q) in RV.RATIOS:
                groups.append([[b, 0, p, q]] * p)
    if ok is not None:
        groups = [g for g in groups if all(ok(v) for v in g)]
    return groups


def glen(group):
    return sum((RV.vlen(v) for v in group), Fr(0))


GM_NAMES = ["Violin", "Flute", "Acoustic Grand Piano", "Church Organ", "Vibraphone", "Acoustic Bass", "Trumpet", "Gunshot"]


class Cfg(object):
    def __init__(self, **kw):
        self.groups = plain_groups()
        self.meters = COMMON_METERS
        self.keys = T.ALL_KEYS
        self.names = NAMES2
        self.octaves = list(range(0, 9))
        self.max_pitch = 115
        self.min_pitch = 0
        self.max_chord = 5
        self.channels = list(range(16))
        self.velocities = st.integers(0, 127)
        self.rest_p = 4  # one entry in rest_p is a rest
        self.max_groups = 8
        self.fill = True  # close every bar exactly
        self.partial_last = False  # the last bar of a track may stay partially filled
        self.bpm_p = 0  # 0 = never; otherwise one sounding entry in bpm_p carries a tempo
        self.bpms = st.integers(30, 300)
        self.max_bars = 4
        self.max_tracks = 4
        self.same_meter_key = False  # all bars of a track share key and meter
        self.instruments = ["none", "generic", "midi"]
        self.text = st.text(alphabet=st.characters(min_codepoint=32, max_codepoint=126), max_size=12)
        self.uniform_channel = False  # every note of a track on one channel
        self.empty_containers = False  # some rests are written as an empty container ([]) instead of None
        self.bpm_on_empty = False  # a tempo may also ride on an empty container (a tempo mark on a silent beat)
        self.share_instruments = False  # tracks of a composition may share one instrument object
        self.empty_track_p = 0  # 0 = never; otherwise one composition in empty_track_p has a track without any bar among the others
        self.subclass_p = 0  # 0 = never; otherwise one sounding entry in subclass_p is held in a user subclass of NoteContainer, and one MIDI instrument in 2 is a user subclass of MidiInstrument
        self.unsorted_p = 0  # 0 = never; otherwise one chord in unsorted_p is not in ascending order (as after nc[i] = note)
        self.twin_entry_p = 0  # 0 = never; otherwise one bar in twin_entry_p gets, next to a sounding entry, an entry of the same value with the same pitches spelled differently
        self.reuse_p = 0  # 0 = never; otherwise one bar in reuse_p has a later entry that is the very same container object as an earlier one (possibly with another value)
        self.duck_instruments = False  # MIDI instruments may be plain Instrument objects carrying an instrument_nr attribute
        self.equal_pitch_p = 0  # 0 = never; otherwise one chord in equal_pitch_p also holds an enharmonic respelling of one of its notes (as after item assignment)
        self.same_bar_p = 0  # 0 = never; otherwise one track in same_bar_p ends with a Bar object that already stands earlier in it
        self.gm_names = True  # MIDI instruments may carry a General MIDI name (independent of their number)
        self.twin_p = 0  # 0 = never; otherwise one bar in twin_p is followed by its enharmonic twin (same pitches, other spelling)
        self.__dict__.update(kw)


def note_st(cfg, channel=None):
    def ok(n):
        return cfg.min_pitch <= T.pitch(n[0], n[1]) <= cfg.max_pitch
    ch = st.sampled_from(cfg.channels) if channel is None else st.just(channel)
    return st.tuples(st.sampled_from(cfg.names), st.sampled_from(cfg.octaves), ch, cfg.velocities).map(list).filter(ok)


def content_st(cfg, channel=None):
    chord = st.lists(note_st(cfg, channel), min_size=1, max_size=cfg.max_chord, unique_by=lambda n: T.pitch(n[0], n[1])).map(
        lambda ns: sorted(ns, key=lambda n: T.pitch(n[0], n[1])))
    single = note_st(cfg, channel).map(lambda n: [n])
    opts = [chord, single]
    if cfg.rest_p:
        rest = (st.none() | st.just([])) if cfg.empty_containers else st.none()
        return st.integers(0, cfg.rest_p - 1).flatmap(lambda k: rest if k == 0 else st.one_of(opts))
    return st.one_of(opts)


@st.composite
def bar_st(draw, cfg, meter=None, key=None, fill=None, channel=None):
    meter = meter or draw(st.sampled_from(cfg.meters))
    key = key or draw(st.sampled_from(cfg.keys))
    fill = cfg.fill if fill is None else fill
    L = Fr(meter[0], meter[1])
    rem = L
    entries = []
    ngroups = draw(st.integers(0 if not fill else 1, cfg.max_groups))
    content = content_st(cfg, channel)
    for _ in range(ngroups):
        cands = [g for g in cfg.groups if glen(g) <= rem]
        if not cands:
            break
        g = draw(st.sampled_from(cands))
        for v in g:
            entries.append(_entry(draw, cfg, v, content))
        rem -= glen(g)
    if fill:
        # close exactly with the largest single-value groups that still fit
        singles = sorted([g for g in cfg.groups if len(g) == 1 and g[0][0] != "num"], key=glen, reverse=True)
        while rem > 0:
            g = next((g for g in singles if glen(g) <= rem), None)
            if g is None:
                break
            entries.append(_entry(draw, cfg, g[0], content))
            rem -= glen(g)
    if cfg.twin_entry_p and len(entries) >= 2 and draw(st.integers(0, cfg.twin_entry_p - 1)) == 0:
        pairs = [i for i in range(1, len(entries)) if entries[i]["v"] == entries[i - 1]["v"] and entries[i - 1]["notes"]]
        if pairs:
            i = draw(st.sampled_from(pairs))
            entries[i] = dict(entries[i], notes=[respell(n, cfg.octaves) for n in entries[i - 1]["notes"]])
            entries[i].pop("reuse", None)
    if cfg.reuse_p and len(entries) >= 2 and draw(st.integers(0, cfg.reuse_p - 1)) == 0:
        srcs = [j for j in range(len(entries) - 1) if entries[j]["notes"] and "bpm" not in entries[j] and "reuse" not in entries[j]]
        if srcs:
            j = draw(st.sampled_from(srcs))
            i = draw(st.integers(j + 1, len(entries) - 1))
            if "reuse" not in entries[i] and not any(e.get("reuse") == i for e in entries):
                entries[i] = {"v": entries[i]["v"], "notes": [list(n) for n in entries[j]["notes"]], "reuse": j}
                if entries[j].get("sub"):
                    entries[i]["sub"] = True
    return {"key": key, "meter": list(meter), "entries": entries}


def _entry(draw, cfg, v, content):
    e = {"v": list(v), "notes": draw(content)}
    if cfg.bpm_p and (e["notes"] or (cfg.bpm_on_empty and e["notes"] == [])) and draw(st.integers(0, cfg.bpm_p - 1)) == 0:
        e["bpm"] = draw(cfg.bpms)
    if cfg.unsorted_p and e["notes"] and len(e["notes"]) > 1 and draw(st.integers(0, cfg.unsorted_p - 1)) == 0:
        e["notes"] = draw(st.permutations(e["notes"]))
    if cfg.equal_pitch_p and e["notes"] and draw(st.integers(0, cfg.equal_pitch_p - 1)) == 0:
        k = draw(st.integers(0, len(e["notes"]) - 1))
        twin = respell(e["notes"][k], cfg.octaves)
        if twin[:2] != e["notes"][k][:2]:
            e["notes"] = list(e["notes"])
            e["notes"].insert(draw(st.integers(0, len(e["notes"]))), twin)
    if cfg.subclass_p and e["notes"] and draw(st.integers(0, cfg.subclass_p - 1)) == 0:
        e["sub"] = True
    return e


def respell(note, octaves):
    """another spelling of the same pitch (e.g. C#-4 -> Db-4, B-3 -> Cb-4), or the note itself when there is none in range"""
    p = T.pitch(note[0], note[1])
    for nm in NAMES2:
        if nm[0] != note[0][0]:
            o, r = divmod(p - T.NAT[nm[0]] - T.acc(nm), 12)
            if r == 0 and o in octaves:
                return [nm, o] + list(note[2:])
    return list(note)


def twin_bar(bar, octaves):
    return {"key": bar["key"], "meter": list(bar["meter"]),
            "entries": [dict(e, notes=None if e["notes"] is None else [respell(n, octaves) for n in e["notes"]]) for e in bar["entries"]]}


@st.composite
def track_st(draw, cfg):
    nbars = draw(st.integers(1, cfg.max_bars))
    meter = draw(st.sampled_from(cfg.meters)) if cfg.same_meter_key else None
    key = draw(st.sampled_from(cfg.keys)) if cfg.same_meter_key else None
    channel = draw(st.sampled_from(cfg.channels)) if cfg.uniform_channel else None
    bars = []
    for i in range(nbars):
        last = i == nbars - 1
        fill = cfg.fill and not (last and cfg.partial_last and draw(st.booleans()))
        bars.append(draw(bar_st(cfg, meter=meter, key=key, fill=fill, channel=channel)))
        if cfg.twin_p and draw(st.integers(0, cfg.twin_p - 1)) == 0:
            bars.append(twin_bar(bars[-1], cfg.octaves))
            if draw(st.booleans()):
                bars.append(twin_bar(bars[-1], cfg.octaves) if draw(st.booleans()) else dict(bars[-2]))
    if cfg.same_bar_p and len(bars) >= 2 and draw(st.integers(0, cfg.same_bar_p - 1)) == 0:
        # the very same Bar object once more at the end of the track (not next to its first occurrence when there are 3+ bars)
        j = draw(st.integers(0, len(bars) - 2))
        bars.append(dict(bars[j], same_as=j))
    kind = draw(st.sampled_from(cfg.instruments))
    instr = None
    if kind == "midi":
        # the number is what counts; the name may well be a General MIDI name that stands for another number
        instr = {"kind": "midi", "nr": draw(st.integers(0, 127) | st.sampled_from([1, 1, 0, 127])),
                 "name": draw(cfg.text | st.sampled_from(GM_NAMES)) if cfg.gm_names else draw(cfg.text)}
        if cfg.subclass_p and draw(st.booleans()):
            instr["sub"] = True
        elif cfg.duck_instruments and draw(st.integers(0, 3)) == 0:
            # not a MidiInstrument at all: a plain Instrument that carries the attribute instrument_nr ("set the instrument if the
            # instrument has the attribute instrument_nr")
            instr["duck"] = True
    elif kind == "generic":
        instr = {"kind": "generic", "name": draw(cfg.text)}
    elif kind == "percussion":
        instr = {"kind": "percussion", "name": "Midi Percussion"}
    name = draw(st.none() | cfg.text)
    return {"name": name, "instr": instr, "bars": bars}


@st.composite
def comp_st(draw, cfg):
    n = draw(st.integers(1, cfg.max_tracks))
    tracks = [draw(track_st(cfg)) for _ in range(n)]
    if cfg.empty_track_p and draw(st.integers(0, cfg.empty_track_p - 1)) == 0:
        tracks[draw(st.integers(0, n - 1))]["bars"] = []
    comp = {"title": draw(cfg.text), "subtitle": draw(cfg.text), "author": draw(cfg.text), "tracks": tracks}
    if cfg.share_instruments and n > 1 and draw(st.booleans()):
        # several tracks played on one and the same instrument object
        donors = [t["instr"] for t in tracks if t["instr"]]
        if donors:
            for t in tracks[1:]:
                if draw(st.booleans()):
                    t["instr"] = donors[0]
            tracks[0]["instr"] = donors[0]
            comp["share_instruments"] = True
    if draw(st.integers(0, 2)) == 0:  # drawn last: the author's e-mail address (Composition.set_author takes both)
        comp["email"] = draw(cfg.text)
    return comp



def lone_entry_tracks(meters=None):
    """deterministic: tracks whose first bars hold ONE entry each - a rest (None / empty container) or a note of value 1, 2, 4 or
    the beat unit - in every meter, followed by a sounding bar (a lone whole rest is how notation writes a silent bar of any
    length: here it lasts what its value says).  One track per (meter, value)."""
    out = []
    for m in (meters or ALL_METERS):
        length = Fr(m[0], m[1])
        for base in sorted({1, 2, 4, m[1]}):
            if Fr(1, base) > length:
                continue
            v = [base, 0, 1, 1]
            bars = [{"key": "C", "meter": m, "entries": [{"v": v, "notes": None}]},
                    {"key": "C", "meter": m, "entries": [{"v": v, "notes": []}]},
                    {"key": "C", "meter": m, "entries": [{"v": v, "notes": [["E", 4, 2, 90]]}]},
                    {"key": "C", "meter": m, "entries": [{"v": v, "notes": None}]},
                    {"key": "C", "meter": m, "entries": [{"v": [m[1], 0, 1, 1], "notes": [["G", 3, 1, 64], ["B", 3, 1, 64]]}]}]
            out.append({"name": "lone %d/%d" % (m[0], m[1]), "instr": None, "bars": bars})
    return out

# ---- classification helpers (shared non-triviality vocabulary) ------------------------------------------

def entries_of(track):
    return [e for b in track["bars"] for e in b["entries"]]


def features(comp_or_track):
    tracks = comp_or_track["tracks"] if "tracks" in comp_or_track else [comp_or_track]
    f = set()
    for t in tracks:
        es = entries_of(t)
        if es and not es[0]["notes"]:
            f.add("leading-rest")
        if es and not es[-1]["notes"]:
            f.add("trailing-rest")
        for a, b in zip(es, es[1:]):
            if (not a["notes"]) != (not b["notes"]) and (len(a["notes"] or []) > 1 or len(b["notes"] or []) > 1):
                f.add("rest-next-to-chord")
        if comp_or_track.get("email"):
            f.add("author-with-e-mail")
        if any(not e["notes"] for e in es):
            f.add("rest")
        if any(e["notes"] == [] for e in es):
            f.add("empty-container")
        if any(e["notes"] and len(e["notes"]) > 1 for e in es):
            f.add("chord")
        if any(e["v"][0] not in ("ticks", "num") and e["v"][1] > 0 for e in es):
            f.add("dotted")
        if any(e["v"][0] not in ("ticks", "num") and e["v"][2] != 1 for e in es):
            f.add("tuplet")
        if any(e["v"][0] == "ticks" for e in es):
            f.add("tick-value")
        if any(e["notes"] and len({T.pitch(n[0], n[1]) for n in e["notes"]}) < len(e["notes"]) for e in es):
            f.add("two-spellings-of-one-pitch-in-a-chord")
        if any("reuse" in e for e in es):
            f.add("one-container-object-twice")
        if any(e["v"][0] == "num" for e in es):
            f.add("sub-tick-value")
        if not t["bars"]:
            f.add("zero-bar-track")
        if any(e["notes"] and [T.pitch(n[0], n[1]) for n in e["notes"]] != sorted(T.pitch(n[0], n[1]) for n in e["notes"]) for e in es):
            f.add("unsorted-chord")
        if any("same_as" in b for b in t["bars"]):
            f.add("one-bar-object-twice-in-a-track")
        if (t.get("instr") or {}).get("duck"):
            f.add("instrument-number-on-a-plain-instrument")
        if any(e.get("sub") for e in es) or (t.get("instr") or {}).get("sub"):
            f.add("user-subclass")
        if any("bpm" in e for e in es):
            f.add("tempo-change")
        if any(all(not e["notes"] for e in b["entries"]) and b["entries"] for b in t["bars"]):
            f.add("whole-bar-rest")
        ks = {(b["key"], tuple(b["meter"])) for b in t["bars"]}
        if len(ks) > 1:
            f.add("key-or-meter-change")
        for a, b in zip(t["bars"], t["bars"][1:]):
            pa = [[(T.pitch(n[0], n[1])) for n in (e["notes"] or [])] for e in a["entries"]]
            pb = [[(T.pitch(n[0], n[1])) for n in (e["notes"] or [])] for e in b["entries"]]
            if pa == pb and any(pa) and [e["v"] for e in a["entries"]] == [e["v"] for e in b["entries"]]:
                f.add("repeated-bar" if a == b else "enharmonic-twin-bar")
        if any(T.KEY_SIG[b["key"]] != 0 for b in t["bars"]):
            f.add("key-with-accidentals")
        if t["instr"] and t["instr"]["kind"] == "midi":
            f.add("midi-instrument")
            if "leading-rest" in f:
                f.add("leading-rest+instrument")
    if len(tracks) > 1:
        f.add("multi-track")
    return f
