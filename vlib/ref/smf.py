"""R-smf: a strict Standard MIDI File reader written from the SMF 1.0 specification (never imports mingus).

Running status (a channel message without its status byte repeats the status of the previous channel message; meta and
system messages cancel it) is part of the format and is decoded: a writer may use it or not, the events denoted are the same.
"""
import struct


class SMFError(Exception):
    pass


def vlq_encode(n):
    """reference variable-length quantity encoder"""
    if n < 0:
        raise ValueError(n)
    out = [n & 0x7F]
    n >>= 7
    while n:
        out.append((n & 0x7F) | 0x80)
        n >>= 7
    return bytes(reversed(out))


def vlq_decode(b, i=0):
    v = 0
    n = 0
    while True:
        if i >= len(b):
            raise SMFError("variable-length quantity runs past the end of the data")
        c = b[i]
        i += 1
        n += 1
        v = (v << 7) | (c & 0x7F)
        if n > 4:
            raise SMFError("variable-length quantity longer than 4 bytes")
        if not c & 0x80:
            return v, i


def parse(data):
    if data[:4] != b"MThd":
        raise SMFError("no MThd tag")
    if len(data) < 14:
        raise SMFError("short header")
    hl = struct.unpack(">I", data[4:8])[0]
    if hl != 6:
        raise SMFError("header length %d" % hl)
    fmt, ntr, div = struct.unpack(">HHH", data[8:14])
    pos = 14
    tracks = []
    while pos < len(data):
        if data[pos:pos + 4] != b"MTrk":
            raise SMFError("bad chunk tag %r at %d" % (data[pos:pos + 4], pos))
        if pos + 8 > len(data):
            raise SMFError("short chunk header")
        ln = struct.unpack(">I", data[pos + 4:pos + 8])[0]
        body = data[pos + 8:pos + 8 + ln]
        if len(body) != ln:
            raise SMFError("chunk length %d exceeds the data (%d left)" % (ln, len(body)))
        tracks.append(parse_track(body))
        pos += 8 + ln
    return {"format": fmt, "ntracks": ntr, "division": div, "tracks": tracks}


KINDS = {8: "off", 9: "on", 0xA: "at", 0xB: "cc", 0xC: "pc", 0xD: "cp", 0xE: "pb"}


def parse_track(b):
    """-> list of (absolute tick, kind, ...): ('meta', type, data) | ('on'|'off'|'cc'..., channel, p1[, p2])"""
    i = 0
    t = 0
    ev = []
    ended = False
    running = None
    while i < len(b):
        if ended:
            raise SMFError("data after end-of-track")
        d, i = vlq_decode(b, i)
        t += d
        if i >= len(b):
            raise SMFError("delta time without event")
        st = b[i]
        i += 1
        if st < 0x80:
            if running is None:
                raise SMFError("data byte %02x where a status byte is required (offset %d)" % (st, i - 1))
            st = running  # running status: the byte just read is the first data byte
            i -= 1
        if st == 0xFF:
            running = None
            if i >= len(b):
                raise SMFError("truncated meta event")
            ty = b[i]
            i += 1
            ln, i = vlq_decode(b, i)
            dat = b[i:i + ln]
            if len(dat) != ln:
                raise SMFError("meta event data truncated")
            i += ln
            ev.append((t, "meta", ty, bytes(dat)))
            if ty == 0x2F:
                if ln != 0:
                    raise SMFError("end-of-track with data")
                ended = True
        elif st >= 0xF0:
            raise SMFError("system message %02x not expected" % st)
        else:
            k = st >> 4
            n = 1 if k in (0xC, 0xD) else 2
            ps = b[i:i + n]
            if len(ps) != n or any(p & 0x80 for p in ps):
                raise SMFError("bad parameters for status %02x at %d" % (st, i))
            i += n
            running = st
            ev.append((t, KINDS[k], st & 15) + tuple(ps))
    if not ended:
        raise SMFError("no end-of-track event")
    return ev
