"""R-ly: reader for exactly the LilyPond subset mingus emits (never imports mingus).

read(text) -> {"header": {field: text} | None, "music": tree}
tree = list of items; item = ("time", n, d) | ("key", name, mode) | ("e", [(name, octave|None)], base, dots, (p, q)) | [nested group]
A \\times a/b { ... } group is flattened: its entries carry ratio (p, q) = (b, a), i.e. p notes in the time of q.
Absolute octave convention: c' = C-4, c = C-3, c, = C-2.  base None = no duration written.
"""
import re


class LyError(Exception):
    pass


_TOK = re.compile(r"""\s*(
    \\[a-zA-Z]+ | [{}<>=] | \d+/\d+ | "(?:[^"\\]|\\.)*" | [a-gr](?:is|es)*[',]*(?![a-zA-Z]) | \d+ | \.+ | [A-Za-z]+
    )""", re.X)
_PIT = re.compile(r"^([a-g])((?:is|es)*)([',]*)$")


def tokens(s):
    pos = 0
    out = []
    s = s.strip()
    while pos < len(s):
        m = _TOK.match(s, pos)
        if not m or m.end() == pos:
            raise LyError("cannot tokenise at %r" % s[pos:pos + 20])
        out.append(m.group(1))
        pos = m.end()
        while pos < len(s) and s[pos].isspace():
            pos += 1
    return out


def pitch(tok, octaves=True):
    m = _PIT.match(tok)
    if not m:
        raise LyError("not a pitch: %r" % tok)
    acc = m.group(2)
    i = 0
    name = m.group(1).upper()
    while i < len(acc):
        name += "#" if acc[i:i + 2] == "is" else "b"
        i += 2
    marks = m.group(3)
    if "'" in marks and "," in marks:
        raise LyError("mixed octave marks in %r" % tok)
    return (name, 3 + marks.count("'") - marks.count(","), len(marks))


class _P(object):
    def __init__(self, toks):
        self.t = toks
        self.i = 0

    def peek(self):
        return self.t[self.i] if self.i < len(self.t) else None

    def next(self):
        if self.i >= len(self.t):
            raise LyError("unexpected end of input")
        self.i += 1
        return self.t[self.i - 1]

    def expect(self, x):
        t = self.next()
        if t != x:
            raise LyError("expected %r, got %r (token %d)" % (x, t, self.i))

    def duration(self):
        base = None
        dots = 0
        t = self.peek()
        if t in ("\\longa", "\\breve"):
            self.next()
            base = 0.25 if t == "\\longa" else 0.5
        elif t is not None and t.isdigit():
            base = int(self.next())
        if self.peek() is not None and set(self.peek()) == {"."}:
            dots = len(self.next())
        return base, dots

    def music(self, ratio, out):
        while True:
            t = self.peek()
            if t is None or t == "}":
                return
            if t == "{":
                self.next()
                sub = []
                self.music(ratio, sub)
                self.expect("}")
                out.append(sub)
            elif t == "\\time":
                self.next()
                n, d = self.next().split("/")
                out.append(("time", int(n), int(d)))
            elif t == "\\key":
                self.next()
                p = pitch(self.next())
                mode = self.next()
                if mode not in ("\\major", "\\minor"):
                    raise LyError("bad mode %r" % mode)
                out.append(("key", p[0], mode[1:]))
            elif t == "\\times":
                self.next()
                a, b = self.next().split("/")
                self.expect("{")
                # LilyPond scales everything inside the block: a \\times block inside another one is scaled by both fractions
                from fractions import Fraction as _Fr
                f = _Fr(ratio[0] * int(b), ratio[1] * int(a))
                self.music((f.numerator, f.denominator), out)
                self.expect("}")
            elif t == "<":
                self.next()
                ps = []
                while self.peek() != ">":
                    ps.append(pitch(self.next()))
                self.next()
                base, dots = self.duration()
                out.append(("e", ps, base, dots, ratio))
            elif t == "r":
                self.next()
                base, dots = self.duration()
                out.append(("e", [], base, dots, ratio))
            elif _PIT.match(t):
                p = pitch(self.next())
                base, dots = self.duration()
                out.append(("e", [p], base, dots, ratio))
            else:
                raise LyError("unexpected token %r" % t)

    def header(self):
        self.expect("\\header")
        self.expect("{")
        fields = {}
        while self.peek() != "}":
            k = self.next()
            self.expect("=")
            v = self.next()
            if not (len(v) >= 2 and v[0] == '"' and v[-1] == '"'):
                raise LyError("header value is not a string: %r" % v)
            fields[k] = v[1:-1]
        self.expect("}")
        return fields


def read(text):
    p = _P(tokens(text))
    header = None
    if p.peek() == "\\header":
        header = p.header()
    out = []
    p.music((1, 1), out)
    if p.peek() is not None:
        raise LyError("trailing input at token %r" % p.peek())
    return {"header": header, "music": out}
