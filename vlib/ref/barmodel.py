"""Exact-rational reference model of a bar and of a track of bars (never imports mingus)."""
from fractions import Fraction as Fr

from vlib.ref import rvalues as RV
from vlib.ref import theory as T


def content_model(notes):
    """what a NoteContainer built from explicit [name, octave] items holds: pitch-sorted, first of equal pitch wins"""
    seen = {}
    for (n, o) in notes:
        p = T.pitch(n, o)
        if p not in seen:
            seen[p] = (n, o)
    return [list(seen[p]) for p in sorted(seen)]


class BarModel(object):
    def __init__(self, meter):
        n, d = meter
        self.meter = (n, d)
        self.L = None if (d == 0 or n == 0) else Fr(n) / Fr(d)
        self.entries = []  # [start Fr, number, content|None, exact length Fr]
        self.total = Fr(0)

    def fits(self, length):
        return self.L is None or self.total + length <= self.L

    def place(self, number, length, content):
        if not self.fits(length):
            return False
        self.entries.append([self.total, number, content, length])
        self.total += length
        return True

    def remove_last(self):
        e = self.entries.pop()
        self.total = e[0]

    def is_full(self):
        return bool(self.entries) and self.L is not None and self.L - self.total <= Fr(1, 1000)

    def remainder_value(self):
        """vocabulary value id whose length is exactly the space left, or None"""
        if self.L is None:
            return None
        rem = self.L - self.total
        for v in RV.VOCAB:
            if RV.vlen(v) == rem:
                return v
        return None
