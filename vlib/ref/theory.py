"""R-theory: independent reference arithmetic on note names (never imports mingus)."""
import itertools
import re

LETTERS = "CDEFGAB"
NAT = {"C": 0, "D": 2, "E": 4, "F": 5, "G": 7, "A": 9, "B": 11}
MAJOR_SIZES = [0, 2, 4, 5, 7, 9, 11]  # semitones of major/perfect interval number 1..7
_VALID = re.compile(r"[A-G][#b]*")


def valid(name):
    return isinstance(name, str) and bool(_VALID.fullmatch(name))


def acc(name):
    return name.count("#") - name.count("b")


def pc(name):
    return (NAT[name[0]] + acc(name)) % 12


def pitch(name, octave):
    return 12 * octave + NAT[name[0]] + acc(name)


def unmixed(name):
    return not ("#" in name and "b" in name)


def letter_up(letter, steps):
    return LETTERS[(LETTERS.index(letter) + steps) % 7]


def letter_dist(a, b):
    """ascending number of letter steps from letter a to letter b (0..6)"""
    return (LETTERS.index(b) - LETTERS.index(a)) % 7


def acc_strings(k):
    """every string over {#,b} of length <= k, all orders"""
    for n in range(k + 1):
        for t in itertools.product("#b", repeat=n):
            yield "".join(t)


def all_names(k):
    """letter x every accidental string of length <= k (all orders): 7*(2^(k+1)-1) names"""
    return [l + a for l in LETTERS for a in acc_strings(k)]


def unmixed_names(k):
    """letter x (n sharps | n flats), n <= k: 7*(2k+1) names"""
    res = []
    for l in LETTERS:
        res.append(l)
        for n in range(1, k + 1):
            res.append(l + "#" * n)
            res.append(l + "b" * n)
    return res


def spelled(name, acc_n):
    return name[0] + ("#" * acc_n if acc_n > 0 else "b" * (-acc_n))


def spell(root, degree, semitones):
    """(letter, pitch class) of the note `degree` letters (1-based) and `semitones` above root"""
    return letter_up(root[0], degree - 1), (pc(root) + semitones) % 12


def matches(name, letter, pclass, max_acc=6, need_unmixed=True):
    """validity predicate used instead of comparing accidental strings"""
    if not valid(name) or name[0] != letter or pc(name) != pclass % 12:
        return False
    if need_unmixed and not unmixed(name):
        return False
    if max_acc is not None and len(name) - 1 > max_acc:
        return False
    return True


def canonical(letter, pclass):
    """the spelling of pclass on letter with the fewest accidentals (tie at 6 -> sharps)"""
    d = (pclass - NAT[letter]) % 12
    if d > 6:
        d -= 12
    return spelled(letter, d)


# ---- keys ------------------------------------------------------------------------------------------
FIFTHS = "FCGDAEB"
# signature number -> (major tonic, minor tonic)
KEYS = {
    -7: ("Cb", "ab"), -6: ("Gb", "eb"), -5: ("Db", "bb"), -4: ("Ab", "f"), -3: ("Eb", "c"),
    -2: ("Bb", "g"), -1: ("F", "d"), 0: ("C", "a"), 1: ("G", "e"), 2: ("D", "b"), 3: ("A", "f#"),
    4: ("E", "c#"), 5: ("B", "g#"), 6: ("F#", "d#"), 7: ("C#", "a#"),
}
MAJOR_KEYS = [KEYS[i][0] for i in range(-7, 8)]
MINOR_KEYS = [KEYS[i][1] for i in range(-7, 8)]
ALL_KEYS = MAJOR_KEYS + MINOR_KEYS
KEY_SIG = {}
for _n, (_M, _m) in KEYS.items():
    KEY_SIG[_M] = _n
    KEY_SIG[_m] = _n
MAJOR_STEPS = [2, 2, 1, 2, 2, 2, 1]
MINOR_STEPS = [2, 1, 2, 2, 1, 2, 2]


def key_tonic(key):
    return key[0].upper() + key[1:]


def key_is_minor(key):
    return key[0].islower()


def signature_accidentals(n):
    if n >= 0:
        return [l + "#" for l in FIFTHS[:n]]
    return [l + "b" for l in FIFTHS[::-1][:-n]]


def key_notes(key):
    """the seven notes of a key, spelled from the step pattern on consecutive letters"""
    tonic = key_tonic(key)
    steps = MINOR_STEPS if key_is_minor(key) else MAJOR_STEPS
    res = [tonic]
    s = 0
    for i, st in enumerate(steps[:-1]):
        s += st
        letter, p = spell(tonic, i + 2, s)
        res.append(canonical(letter, p))
    return res


# ---- intervals -------------------------------------------------------------------------------------
# named constructors: name -> (interval number, semitones)
CONSTRUCTORS = {
    "minor_unison": (1, -1), "major_unison": (1, 0), "augmented_unison": (1, 1),
    "minor_second": (2, 1), "major_second": (2, 2),
    "minor_third": (3, 3), "major_third": (3, 4),
    "minor_fourth": (4, 4), "major_fourth": (4, 5), "perfect_fourth": (4, 5),
    "minor_fifth": (5, 6), "major_fifth": (5, 7), "perfect_fifth": (5, 7),
    "minor_sixth": (6, 8), "major_sixth": (6, 9),
    "minor_seventh": (7, 10), "major_seventh": (7, 11),
}
NUMBER_NAMES = ["unison", "second", "third", "fourth", "fifth", "sixth", "seventh"]

INTERVAL_SHORTHANDS = [a + str(d) for d in range(1, 8) for a in ("", "#", "##", "b", "bb")]


def shorthand_size(sh):
    """semitones of an interval shorthand like 'b3', '##4', '7'"""
    d = int(sh[-1])
    return MAJOR_SIZES[d - 1] + sh.count("#") - sh.count("b")


def shorthand_degree(sh):
    return int(sh[-1])


def interval_long_name(a, b):
    """expected long interval name for valid names a, b (ascending letter-wise reading)"""
    n = letter_dist(a[0], b[0])
    size = (NAT[b[0]] - NAT[a[0]]) % 12 + acc(b) - acc(a)
    off = size - MAJOR_SIZES[n]
    if off == 0:
        q = "perfect" if n in (3, 4) else "major"
    elif off == -1:
        q = "minor"
    elif off < -1:
        q = "diminished"
    else:
        q = "augmented"
    return q, NUMBER_NAMES[n], size
