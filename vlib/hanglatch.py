"""Keep a non-terminating call from costing one watchdog period per generated case.

The framework's watchdog turns a hang into a '<check>/timeout' violation after WATCHDOG_S seconds, but the drivers go on
to the next case (enumerations) or shrink (Hypothesis), and with a systematically non-terminating function every one of
those costs another watchdog period.  ``latched(name, fn)`` wraps a check function so that, in one process,

* the first case that times out is reported by the framework exactly as before;
* that same case, if it is run again (Hypothesis replays the failing example at the end), is reported again at once
  under the same signature without calling the code under test;
* every other later case is skipped (counted under the class 'skipped-after-timeout').

The verdict of the run is already "violation" at that point; nothing is hidden.  Replays (--replay) are never skipped.
"""
import json

from vlib.core import WatchdogTimeout, _alarm, jsonable


def latched(check_name, fn):
    def wrapper(ctx, case):
        hung = ctx.__dict__.setdefault("_hung_cases", {}).setdefault(check_name, set())
        if hung and not ctx.replaying:
            if json.dumps(jsonable(case), sort_keys=True, default=repr) in hung:
                _alarm(None, None)  # raises WatchdogTimeout from the same place as the real alarm: same report
            ctx.label("skipped-after-timeout")
            return
        try:
            fn(ctx, case)
        except WatchdogTimeout:
            hung.add(json.dumps(jsonable(case), sort_keys=True, default=repr))
            raise

    wrapper.__name__ = getattr(fn, "__name__", "check")
    return wrapper
