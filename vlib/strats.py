"""Hypothesis strategies shared by several property modules (pure generators, no oracles)."""
from hypothesis import strategies as st


def lopsided_accidentals(max_len=48):
    """accidental strings that lean heavily to one sign but are interrupted by the other one every now and then: a large net
    balance without a long run of equal signs (e.g. '##########b##########'), next to the plainly random and one-sided ones"""
    def build(t):
        main, other, length, gaps = t
        chars = [main] * length
        for g in gaps:
            if length:
                chars[g % length] = other
        return "".join(chars)
    signs = st.sampled_from([("#", "b"), ("b", "#")])
    return st.tuples(signs, st.integers(0, max_len), st.lists(st.integers(0, 10 ** 6), min_size=0, max_size=6)).map(
        lambda t: build((t[0][0], t[0][1], t[1], t[2])))


def any_accidentals(max_len=48):
    return st.one_of(st.text(alphabet="#b", min_size=0, max_size=max_len),
                     st.builds(lambda s, k: s * k, st.sampled_from("#b"), st.integers(0, max_len)),
                     lopsided_accidentals(max_len))
